//! In-situ (compositional) conformance: a real stack of layers is driven by the simulator with a transparent
//! *probe* service at every boundary. The probe at boundary b is the inner service of layer b and the caller of
//! layer b+1: it numbers the calls that cross it, logs their start / completion / drop (what layer b did to its
//! inner service) and writes, for layer b+1, the same create / poll / drop events the component adapters write -
//! so that the projection of one execution of the stack onto each layer is a trace in that layer's own
//! vocabulary, validated by TLC against that layer's own specification. The environment of a layer is then
//! not the harness but its real neighbours. See DESIGN.md section 13.
//!
//! Identity bookkeeping: a probe passes the request down with `id` = its own call number and restores it on the
//! way up; it rewrites the serial of the response (or of the inner-service error carried by a pass-through
//! error variant) to its own call number. Every layer therefore sees requests identified by its caller number
//! and responses identified by its inner call number, exactly as under the component adapters.
#![allow(dead_code)]
use crate::sim::*;
use serde_json::{json, Value};
use std::future::Future;
use std::panic::{catch_unwind, resume_unwind, AssertUnwindSafe};
use std::pin::Pin;
use std::sync::{Arc, Mutex};
use std::task::{Context, Poll};

/// What a probe needs to know about an error that crosses it.
pub trait ErrTok {
    /// Some(kind) if the outermost variant is the own error of the layer that returned it
    fn own(&self) -> Option<String>;
    /// code of the inner-service error passed through (own errors of lower layers count as code 1)
    fn code(&self) -> u32;
    /// serial carried by the innermost service error, -1 if there is none
    fn serial(&self) -> i64;
    fn set_serial(&mut self, s: u64);
    /// the value an own error carries (-1 if none)
    fn own_val(&self) -> i64 {
        -1
    }
}
impl ErrTok for IErr {
    fn own(&self) -> Option<String> {
        None
    }
    fn code(&self) -> u32 {
        self.code
    }
    fn serial(&self) -> i64 {
        self.serial as i64
    }
    fn set_serial(&mut self, s: u64) {
        self.serial = s;
    }
}
macro_rules! errtok {
    ($t:ty, $pass:path, $own:expr) => {
        impl<E: ErrTok> ErrTok for $t {
            fn own(&self) -> Option<String> {
                match self {
                    $pass(_) => None,
                    #[allow(unreachable_patterns)]
                    other => Some(($own)(other)),
                }
            }
            fn code(&self) -> u32 {
                match self {
                    $pass(e) => e.code(),
                    #[allow(unreachable_patterns)]
                    _ => 1,
                }
            }
            fn serial(&self) -> i64 {
                match self {
                    $pass(e) => e.serial(),
                    #[allow(unreachable_patterns)]
                    _ => -1,
                }
            }
            fn set_serial(&mut self, s: u64) {
                if let $pass(e) = self {
                    e.set_serial(s)
                }
            }
        }
    };
}
errtok!(tower_resilience_timelimiter::TimeLimiterError<E>, tower_resilience_timelimiter::TimeLimiterError::Inner, |_e: &tower_resilience_timelimiter::TimeLimiterError<E>| "timeout".to_string());
errtok!(tower_resilience_circuitbreaker::CircuitBreakerError<E>, tower_resilience_circuitbreaker::CircuitBreakerError::Inner, |_e: &tower_resilience_circuitbreaker::CircuitBreakerError<E>| "open".to_string());
errtok!(tower_resilience_bulkhead::BulkheadServiceError<E>, tower_resilience_bulkhead::BulkheadServiceError::Inner, |e: &tower_resilience_bulkhead::BulkheadServiceError<E>| match e {
    tower_resilience_bulkhead::BulkheadServiceError::Bulkhead(tower_resilience_bulkhead::BulkheadError::Timeout) => "timeout".to_string(),
    _ => "full".to_string(),
});
errtok!(tower_resilience_ratelimiter::RateLimiterServiceError<E>, tower_resilience_ratelimiter::RateLimiterServiceError::Inner, |_e: &tower_resilience_ratelimiter::RateLimiterServiceError<E>| "limited".to_string());
errtok!(tower_resilience_adaptive::AdaptiveError<E>, tower_resilience_adaptive::AdaptiveError::Service, |_e: &tower_resilience_adaptive::AdaptiveError<E>| "limit".to_string());
errtok!(tower_resilience_coalesce::CoalesceError<E>, tower_resilience_coalesce::CoalesceError::Service, |e: &tower_resilience_coalesce::CoalesceError<E>| match e {
    tower_resilience_coalesce::CoalesceError::LeaderCancelled => "cancelled".to_string(),
    _ => "recv".to_string(),
});
errtok!(tower_resilience_cache::CacheError<E>, tower_resilience_cache::CacheError::Inner, |_e: &tower_resilience_cache::CacheError<E>| "cache".to_string());
impl<E: ErrTok> ErrTok for tower_resilience_fallback::FallbackError<E> {
    fn own(&self) -> Option<String> {
        match self {
            tower_resilience_fallback::FallbackError::Inner(_) => None,
            tower_resilience_fallback::FallbackError::FallbackFailed(e) => Some(format!("fbfailed{}", e.code())),
        }
    }
    fn code(&self) -> u32 {
        match self {
            tower_resilience_fallback::FallbackError::Inner(e) => e.code(),
            _ => 1,
        }
    }
    fn serial(&self) -> i64 {
        match self {
            tower_resilience_fallback::FallbackError::Inner(e) => e.serial(),
            _ => -1,
        }
    }
    fn set_serial(&mut self, s: u64) {
        if let tower_resilience_fallback::FallbackError::Inner(e) = self {
            e.set_serial(s)
        }
    }
    fn own_val(&self) -> i64 {
        match self {
            tower_resilience_fallback::FallbackError::FallbackFailed(e) => e.serial(),
            _ => -1,
        }
    }
}

/// One boundary: the calls that crossed it and what happened to them since the last event of the layer above.
pub struct Bnd {
    pub ncalls: usize,
    pub log: Vec<IEv>,
    /// caller (of the layer above this boundary) that made inner call i
    pub owner: Vec<u32>,
    /// number of the latest inner call that ended in an error
    pub last_err: i64,
}
pub struct LayerRec {
    pub name: String,
    pub cfg: Value,
    pub lines: Vec<String>,
    pub obs: Option<Box<dyn FnMut() -> Obj + Send>>,
    pub last_obs: Obj,
}
pub struct Hub {
    pub t0: tokio::time::Instant,
    /// bnds[b], b = 0..=n: boundary b lies between layer b (above) and layer b+1 (below); layer 0 is the driver
    pub bnds: Vec<Bnd>,
    /// layers[k], k = 1..=n (index 0 unused)
    pub layers: Vec<LayerRec>,
}
pub type H = Arc<Mutex<Hub>>;
impl Hub {
    pub fn new(names: &[(&str, Value)], seed: u64, run: usize, size: &str, stack: &Value) -> H {
        let n = names.len();
        let mut layers = vec![LayerRec { name: "driver".into(), cfg: json!({}), lines: vec![], obs: None, last_obs: Obj::new() }];
        for (k, (nm, cfg)) in names.iter().enumerate() {
            let mut l = LayerRec { name: nm.to_string(), cfg: cfg.clone(), lines: vec![], obs: None, last_obs: Obj::new() };
            l.lines.push(json!({"e":"reset","comp":format!("insitu_{}", nm),"layer":k + 1,"cfg":cfg,"seed":seed,"run":run,"size":size,"stack":stack}).to_string());
            layers.push(l);
        }
        let bnds = (0..=n).map(|_| Bnd { ncalls: 0, log: vec![], owner: vec![], last_err: -1 }).collect();
        Arc::new(Mutex::new(Hub { t0: tokio::time::Instant::now(), bnds, layers }))
    }
    pub fn n(&self) -> usize {
        self.layers.len() - 1
    }
    /// write one event of layer k: adds t, the given activity at the boundary below it, and its observation
    /// (obs: 2 = read afresh, 1 = as after the layer's previous event, 0 = none: the state inside a split poll)
    fn emit_raw(&mut self, k: usize, mut m: Obj, entries: Vec<IEv>, obs: u8) {
        m.insert("t".into(), json!(self.t0.elapsed().as_millis() as u64));
        let (mut starts, mut dones, mut drops) = (vec![], vec![], vec![]);
        for e in entries {
            match e {
                IEv::Start { i, c, key, inst } => starts.push(json!({"i":i,"c":c,"key":key,"inst":inst})),
                IEv::Done { i, out } => dones.push(json!({"i":i,"out":out})),
                IEv::Drop { i } => drops.push(json!(i)),
                _ => {}
            }
        }
        m.insert("ns".into(), json!(starts.len()));
        m.insert("nd".into(), json!(dones.len()));
        m.insert("ndr".into(), json!(drops.len()));
        m.insert("si".into(), starts.first().map(|s| s["i"].clone()).unwrap_or(json!(0)));
        m.insert("sc".into(), starts.first().map(|s| s["c"].clone()).unwrap_or(json!(0)));
        m.insert("sk".into(), starts.first().map(|s| s["key"].clone()).unwrap_or(json!(0)));
        m.insert("starts".into(), Value::Array(starts));
        m.insert("dones".into(), Value::Array(dones));
        m.insert("drops".into(), Value::Array(drops));
        let l = &mut self.layers[k];
        if obs == 2 {
            if let Some(o) = l.obs.as_mut() {
                l.last_obs = o();
            }
        }
        if obs >= 1 {
            for (a, b) in l.last_obs.iter() {
                m.insert(a.clone(), b.clone());
            }
        } else {
            m.insert("split".into(), json!(true));
        }
        l.lines.push(Value::Object(m).to_string());
    }
    /// One event of layer k (create / poll / drop / advance / op) with everything that happened at the boundary below
    /// it since its previous event. Two adjustments put it into the layer's own vocabulary, in which inner calls are
    /// resolved by the environment between polls:
    /// * an inner call that ended during this event shows as a `complete` by the environment just before it;
    /// * an inner call that was started AND ended within this one poll (the neighbour below answered at once) splits
    ///   the poll in two: a pending poll that starts the call, its completion, and the poll that consumes it. Nothing
    ///   else happens in between, so the split run is the same behaviour; the layer's state inside the split cannot
    ///   be observed, so those two events carry no observation ("split").
    pub fn emit(&mut self, k: usize, m: Obj, _fresh: bool) {
        if k == 0 || k > self.n() {
            return;
        }
        let log: Vec<IEv> = self.bnds[k].log.drain(..).collect();
        let mut started: Vec<usize> = vec![];
        let mut cur: Vec<IEv> = vec![];
        let mut in_split = false;
        for e in log {
            match &e {
                IEv::Start { i, .. } => {
                    started.push(*i);
                    cur.push(e);
                }
                IEv::Done { i, out } => {
                    let c = self.bnds[k].owner.get(*i - 1).cloned().unwrap_or(0);
                    let mut cm = Sim::ev("complete");
                    cm.insert("i".into(), json!(i));
                    cm.insert("c".into(), json!(c));
                    cm.insert("out".into(), json!(out));
                    cm.insert("synth".into(), json!(true));
                    if started.contains(i) {
                        let mut pm = Sim::ev("poll");
                        pm.insert("c".into(), m.get("c").cloned().unwrap_or(json!(0)));
                        pm.insert("res".into(), json!("pending"));
                        self.emit_raw(k, pm, std::mem::take(&mut cur), 0);
                        in_split = true;
                    }
                    self.emit_raw(k, cm, vec![], if in_split { 0 } else { 1 });
                    cur.push(e);
                }
                _ => cur.push(e),
            }
        }
        self.emit_raw(k, m, cur, 2);
    }
    /// an environment event every layer sees (advance)
    pub fn broadcast(&mut self, m: &Obj) {
        for k in 1..=self.n() {
            self.emit(k, m.clone(), true);
        }
    }
}

pub struct Probe<S> {
    pub inner: S,
    pub hub: H,
    pub b: usize,
}
impl<S: Clone> Clone for Probe<S> {
    fn clone(&self) -> Self {
        Probe { inner: self.inner.clone(), hub: self.hub.clone(), b: self.b }
    }
}
impl<S> Probe<S> {
    pub fn new(inner: S, hub: &H, b: usize) -> Self {
        Probe { inner, hub: hub.clone(), b }
    }
}
impl<S> tower::Service<Req> for Probe<S>
where
    S: tower::Service<Req, Response = Resp>,
    S::Error: ErrTok,
    S::Future: 'static,
{
    type Response = Resp;
    type Error = S::Error;
    type Future = ProbeFut<S::Future>;
    fn poll_ready(&mut self, cx: &mut Context<'_>) -> Poll<Result<(), S::Error>> {
        self.inner.poll_ready(cx)
    }
    fn call(&mut self, req: Req) -> Self::Future {
        let b = self.b;
        let i = {
            let mut h = self.hub.lock().unwrap();
            let bd = &mut h.bnds[b];
            bd.ncalls += 1;
            let i = bd.ncalls;
            bd.owner.push(req.id);
            bd.log.push(IEv::Start { i, c: req.id, key: req.key, inst: 0 });
            i
        };
        let r = catch_unwind(AssertUnwindSafe(|| self.inner.call(Req { id: i as u32, key: req.key })));
        let mut m = Sim::ev("create");
        m.insert("c".into(), json!(i));
        m.insert("key".into(), json!(req.key));
        match r {
            Ok(f) => {
                m.insert("res".into(), json!("created"));
                self.hub.lock().unwrap().emit(b + 1, m, true);
                ProbeFut { f: Some(Box::pin(f)), hub: self.hub.clone(), b, i, orig: req.id, finished: false }
            }
            Err(p) => {
                m.insert("res".into(), json!("panic"));
                let mut h = self.hub.lock().unwrap();
                h.emit(b + 1, m, true);
                h.bnds[b].log.push(IEv::Done { i, out: "panic".into() });
                drop(h);
                resume_unwind(p)
            }
        }
    }
}
pub struct ProbeFut<F> {
    f: Option<Pin<Box<F>>>,
    hub: H,
    b: usize,
    i: usize,
    orig: u32,
    finished: bool,
}
impl<F, E> Future for ProbeFut<F>
where
    F: Future<Output = Result<Resp, E>>,
    E: ErrTok,
{
    type Output = Result<Resp, E>;
    fn poll(mut self: Pin<&mut Self>, cx: &mut Context<'_>) -> Poll<Self::Output> {
        let this = &mut *self;
        let (b, i) = (this.b, this.i);
        // the future of the layer below lives in the frame of the layer above: a panic drops it while unwinding
        struct FrameOwned<'a, F>(&'a mut Option<Pin<Box<F>>>);
        impl<F> Drop for FrameOwned<'_, F> {
            fn drop(&mut self) {
                if std::thread::panicking() {
                    drop(self.0.take());
                }
            }
        }
        let slot = &mut this.f;
        let r = catch_unwind(AssertUnwindSafe(|| {
            let g = FrameOwned(slot);
            g.0.as_mut().expect("probe future polled after completion").as_mut().poll(cx)
        }));
        let mut m = Sim::ev("poll");
        m.insert("c".into(), json!(i));
        match r {
            Ok(Poll::Pending) => {
                m.insert("res".into(), json!("pending"));
                let mut h = this.hub.lock().unwrap();
                h.emit(b + 1, m, true);
                Poll::Pending
            }
            Ok(Poll::Ready(out)) => {
                this.finished = true;
                // an executor drops a finished future at once; so does whoever awaited this one
                let f = this.f.take();
                let _ = catch_unwind(AssertUnwindSafe(move || drop(f)));
                let mut h = this.hub.lock().unwrap();
                let out = match out {
                    Ok(mut resp) => {
                        m.insert("res".into(), json!("ok"));
                        m.insert("val".into(), json!(resp.serial));
                        m.insert("rq".into(), json!(resp.req));
                        resp.serial = i as u64;
                        resp.req = this.orig;
                        Ok(resp)
                    }
                    Err(mut e) => {
                        m.insert("res".into(), json!("err"));
                        match e.own() {
                            Some(k) => {
                                m.insert("kind".into(), json!(k));
                                m.insert("val".into(), json!(e.own_val()));
                            }
                            None => {
                                m.insert("kind".into(), json!(format!("inner{}", e.code())));
                                let s = e.serial();
                                let below = if b + 1 < h.bnds.len() { h.bnds[b + 1].last_err } else { -1 };
                                m.insert("val".into(), json!(if s >= 0 { s } else { below }));
                            }
                        }
                        h.bnds[b].last_err = i as i64;
                        e.set_serial(i as u64);
                        Err(e)
                    }
                };
                let done = match &out {
                    Ok(_) => "ok".to_string(),
                    Err(e) => format!("e{}", e.code()),
                };
                // the event of the layer below is written first, then this call's end is logged for the layer above
                h.emit(b + 1, m, true);
                h.bnds[b].log.push(IEv::Done { i, out: done });
                Poll::Ready(out)
            }
            Err(p) => {
                this.finished = true;
                let f = this.f.take();
                let _ = catch_unwind(AssertUnwindSafe(move || drop(f)));
                m.insert("res".into(), json!("panic"));
                let mut h = this.hub.lock().unwrap();
                h.emit(b + 1, m, true);
                h.bnds[b].log.push(IEv::Done { i, out: "panic".into() });
                drop(h);
                resume_unwind(p)
            }
        }
    }
}
impl<F> Drop for ProbeFut<F> {
    fn drop(&mut self) {
        if self.finished {
            return;
        }
        let f = self.f.take();
        let r = catch_unwind(AssertUnwindSafe(move || drop(f)));
        if let Ok(mut h) = self.hub.lock() {
            let mut m = Sim::ev("drop");
            m.insert("c".into(), json!(self.i));
            if r.is_err() {
                m.insert("res".into(), json!("panic"));
            }
            h.emit(self.b + 1, m, true);
            let (b, i) = (self.b, self.i);
            h.bnds[b].log.push(IEv::Drop { i });
        }
    }
}
