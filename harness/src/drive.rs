//! Generic environment drivers: seeded random environment (direction 2) and replay of a
//! schedule (TLC-generated behaviours or recorded traces; direction 1 and --replay).
#![allow(dead_code)]
use crate::sim::*;
use serde_json::{json, Value};

#[derive(Clone, Copy, PartialEq, Debug)]
pub enum Size {
    Quick,
    Thorough,
}

#[derive(Clone, Debug)]
pub struct DriveParams {
    /// caller ids 1..=n, each created at most once
    pub n: usize,
    pub keys: u32,
    pub steps: usize,
    /// weights of the environment choices
    pub w_create: u32,
    pub w_poll: u32,
    pub w_complete: u32,
    pub w_drop: u32,
    pub w_adv: u32,
    pub w_op: u32,
    /// outcomes for Complete with weights
    pub outs: Vec<(GOut, u32)>,
    pub max_adv: u64,
    pub horizon: u64,
    /// component operations the environment may invoke
    pub ops: Vec<&'static str>,
    /// percentage of polls of callers that were not woken (spurious polls)
    pub spurious_pct: u32,
    /// callers may be re-created after they finished (ids keep growing)
    pub reuse_ids: bool,
    /// non-urgent executor: time may pass although somebody is runnable
    pub lazy: bool,
    /// finished futures are kept and dropped later by a separate environment action
    pub hold: bool,
    /// percentage of creations during which a call of the wrapped service panics synchronously
    pub callpanic_pct: u32,
}
impl Default for DriveParams {
    fn default() -> Self {
        DriveParams {
            n: 5,
            keys: 1,
            steps: 60,
            w_create: 4,
            w_poll: 8,
            w_complete: 4,
            w_drop: 1,
            w_adv: 4,
            w_op: 0,
            outs: vec![(GOut::Ok, 5), (GOut::Err(1), 3), (GOut::Panic, 1)],
            max_adv: 3,
            horizon: 40,
            ops: vec![],
            spurious_pct: 3,
            reuse_ids: false,
            lazy: false,
            hold: false,
            callpanic_pct: 0,
        }
    }
}

pub trait Adapter {
    fn name(&self) -> &'static str;
    /// choose a configuration for a random run
    fn gen_cfg(&mut self, rng: &mut Rng, size: Size) -> Value;
    /// build the real middleware from cfg (called after sim.reset)
    fn build(&mut self, cfg: &Value, sim: &mut Sim);
    /// poll_ready + call on the real service; returns the normalised caller future
    fn mk(&mut self, req: &Req) -> CallFut;
    /// component-specific operation (force_open, probe, ...); returns its result
    fn op(&mut self, _name: &str, _ev: &Value, _sim: &mut Sim) -> (Value, Obj) {
        (Value::Null, Obj::new())
    }
    fn params(&self, cfg: &Value, size: Size, rng: &mut Rng) -> DriveParams;
    /// environment actions to run at the end of every run (probes)
    fn finale(&self, _cfg: &Value) -> Vec<Value> {
        vec![]
    }
    /// if Some, the run is this list of environment actions (sequential histories) instead of
    /// the generic random environment
    fn script(&mut self, _cfg: &Value, _size: Size, _rng: &mut Rng) -> Option<Vec<Value>> {
        None
    }
    /// called when a run ends (drop services)
    fn teardown(&mut self) {}
    /// if Some, these lines are the run's trace instead of the simulator's own (in-situ layer projections)
    fn take_lines(&mut self) -> Option<Vec<String>> {
        None
    }
}

pub async fn drive_random(sim: &mut Sim, ad: &mut dyn Adapter, rng: &mut Rng, p: &DriveParams) {
    let mut next_id = 1usize;
    sim.hold_finished = p.hold;
    for _ in 0..p.steps {
        if p.hold && !sim.zombies.is_empty() && rng.pct(12) {
            let zs: Vec<usize> = sim.zombies.keys().cloned().collect();
            let c = *rng.pick(&zs);
            sim.reap(c).await;
            continue;
        }
        let flagged = sim.needs_poll();
        let live = sim.live();
        let pend = sim.w.lock().unwrap().pending_gates();
        let can_create = next_id <= p.n;
        let can_adv = (flagged.is_empty() || p.lazy) && sim.now_ms() < p.horizon;
        let ws = [
            if can_create { p.w_create } else { 0 },
            if !flagged.is_empty() { p.w_poll } else { 0 },
            if !pend.is_empty() { p.w_complete } else { 0 },
            if !live.is_empty() { p.w_drop } else { 0 },
            if can_adv { p.w_adv } else { 0 },
            if !p.ops.is_empty() { p.w_op } else { 0 },
        ];
        if ws.iter().sum::<u32>() == 0 {
            break;
        }
        match rng.weighted(&ws) {
            0 => {
                let c = next_id;
                next_id += 1;
                let req = Req { id: c as u32, key: 1 + rng.below(p.keys as usize) as u32 };
                if p.callpanic_pct > 0 && rng.pct(p.callpanic_pct) {
                    sim.create_cp(c, req, &mut |r| ad.mk(r)).await;
                } else {
                    sim.create(c, req, &mut |r| ad.mk(r)).await;
                }
            }
            1 => {
                let c = if rng.pct(p.spurious_pct) && !live.is_empty() { *rng.pick(&live) } else { *rng.pick(&flagged) };
                sim.poll(c).await;
            }
            2 => {
                let i = *rng.pick(&pend);
                let k = rng.weighted(&p.outs.iter().map(|x| x.1).collect::<Vec<_>>());
                sim.complete(i, p.outs[k].0.clone()).await;
            }
            3 => {
                let c = *rng.pick(&live);
                sim.drop_caller(c).await;
            }
            4 => {
                let d = 1 + rng.below(p.max_adv as usize) as u64;
                if p.lazy && !flagged.is_empty() {
                    sim.advance_lazy(d).await;
                } else {
                    sim.advance(d).await;
                }
                // spinners are re-polled by a real executor right away; state_changed() made them stale
            }
            _ => {
                let name = *rng.pick(&p.ops);
                let (res, extra) = ad.op(name, &Value::Null, sim);
                sim.op(name, res, extra).await;
            }
        }
    }
}

fn geti(ev: &Value, k: &str) -> Option<u64> {
    ev.get(k).and_then(|v| v.as_u64())
}

/// Replay the environment half of a list of events. Steps that do not apply to the real
/// state are skipped and counted; the expected reactions in the events are never consulted.
pub async fn drive_schedule(sim: &mut Sim, ad: &mut dyn Adapter, evs: &[Value], rng: &mut Rng) -> usize {
    let mut skipped = 0;
    let dbg = std::env::var("VH_DEBUG").is_ok();
    let mut last_sk = 0;
    for (n, ev) in evs.iter().enumerate() {
        if dbg && skipped > last_sk && n > 0 {
            eprintln!("skipped {}", evs[n - 1]);
            last_sk = skipped;
        }
        let e = ev.get("e").and_then(|v| v.as_str()).unwrap_or("");
        match e {
            "create" => {
                let c = geti(ev, "c").unwrap_or(0) as usize;
                if sim.callers.contains_key(&c) {
                    skipped += 1;
                    continue;
                }
                let req = Req { id: c as u32, key: geti(ev, "key").unwrap_or(1) as u32 };
                if geti(ev, "cp") == Some(1) {
                    sim.create_cp(c, req, &mut |r| ad.mk(r)).await;
                } else {
                    sim.create(c, req, &mut |r| ad.mk(r)).await;
                }
            }
            "poll" => {
                let c = geti(ev, "c").unwrap_or(0) as usize;
                if !sim.callers.contains_key(&c) {
                    skipped += 1;
                    continue;
                }
                sim.poll(c).await;
            }
            "complete" => {
                let out = GOut::parse(ev.get("out").and_then(|v| v.as_str()).unwrap_or("ok"));
                let mut done = false;
                if let Some(i) = geti(ev, "i") {
                    done = sim.complete(i as usize, out.clone()).await;
                }
                if !done {
                    if let Some(c) = geti(ev, "c") {
                        let cand: Option<usize> = {
                            let g = sim.w.lock().unwrap();
                            (0..g.gates.len()).find(|&k| g.gates[k].state == GState::Pending && g.gates[k].req.id == c as u32).map(|k| k + 1)
                        };
                        if let Some(i) = cand {
                            done = sim.complete(i, out).await;
                        }
                    }
                }
                if !done {
                    skipped += 1;
                }
            }
            "drop" => {
                let c = geti(ev, "c").unwrap_or(0) as usize;
                if !sim.drop_caller(c).await {
                    skipped += 1;
                }
            }
            "completeall" => {
                let out = GOut::parse(ev.get("out").and_then(|v| v.as_str()).unwrap_or("ok"));
                let pend = sim.w.lock().unwrap().pending_gates();
                for i in pend {
                    sim.complete(i, out.clone()).await;
                }
            }
            "reap" => {
                let c = geti(ev, "c").unwrap_or(0) as usize;
                if !sim.reap(c).await {
                    skipped += 1;
                }
            }
            "hold" => {
                sim.hold_finished = true;
            }
            "dropall" => {
                for c in sim.live() {
                    sim.drop_caller(c).await;
                }
                let zs: Vec<usize> = sim.zombies.keys().cloned().collect();
                for c in zs {
                    sim.reap(c).await;
                }
            }
            "advance" if ev.get("lazy").and_then(|x| x.as_bool()) == Some(true) => {
                // late-polling executor: time passes although somebody is runnable
                sim.advance_lazy(geti(ev, "d").unwrap_or(1)).await;
            }
            "advance" => {
                // urgency: everything runnable is polled before time passes
                let mut guard = 0;
                loop {
                    let f = sim.needs_poll();
                    if f.is_empty() || guard > 200 {
                        break;
                    }
                    let c = *rng.pick(&f);
                    sim.poll(c).await;
                    guard += 1;
                }
                let mut d = geti(ev, "d").unwrap_or(1);
                // a recorded advance may have been cut short by a timer; replay re-advances the same amount
                while d > 0 {
                    let el = sim.advance(d).await;
                    d -= el.min(d);
                    if d > 0 {
                        let mut guard = 0;
                        loop {
                            let f = sim.needs_poll();
                            if f.is_empty() || guard > 200 {
                                break;
                            }
                            let c = *rng.pick(&f);
                            sim.poll(c).await;
                            guard += 1;
                        }
                    }
                }
            }
            "op" => {
                let name = ev.get("name").and_then(|v| v.as_str()).unwrap_or("").to_string();
                let (res, extra) = ad.op(&name, ev, sim);
                sim.op(&name, res, extra).await;
            }
            "settle" => {
                // poll everything runnable until quiescent
                let mut guard = 0;
                loop {
                    let f = sim.needs_poll();
                    if f.is_empty() || guard > 500 {
                        break;
                    }
                    let c = *rng.pick(&f);
                    sim.poll(c).await;
                    guard += 1;
                }
            }
            _ => {}
        }
    }
    skipped
}

pub struct RunStats {
    pub runs: usize,
    pub events: usize,
    pub skipped: usize,
}

/// random mode: `runs` runs with seeded configurations and environments
pub async fn run_random(ad: &mut dyn Adapter, seed: u64, runs: usize, size: Size, out: &mut Vec<String>) -> RunStats {
    run_random_from(ad, seed, 0, runs, size, out).await
}
/// runs first .. first+runs of the seeded sequence (a run depends on (seed, run number, size) only)
pub async fn run_random_from(ad: &mut dyn Adapter, seed: u64, first: usize, runs: usize, size: Size, out: &mut Vec<String>) -> RunStats {
    let mut sim = Sim::new();
    let mut st = RunStats { runs: 0, events: 0, skipped: 0 };
    for run in first..first + runs {
        let mut rng = Rng::new(seed.wrapping_mul(1_000_003).wrapping_add(run as u64));
        let cfg = ad.gen_cfg(&mut rng, size);
        sim.reset(ad.name(), &cfg, seed, run);
        ad.build(&cfg, &mut sim);
        if let Some(sc) = ad.script(&cfg, size, &mut rng) {
            st.skipped += drive_schedule(&mut sim, ad, &sc, &mut rng).await;
        } else {
            let p = ad.params(&cfg, size, &mut rng);
            drive_random(&mut sim, ad, &mut rng, &p).await;
        }
        let fin = ad.finale(&cfg);
        if !fin.is_empty() {
            st.skipped += drive_schedule(&mut sim, ad, &fin, &mut rng).await;
        }
        sim.obs = None;
        sim.tap = None;
        sim.callers.clear();
        ad.teardown();
        st.runs += 1;
        let own = sim.take_lines();
        out.extend(ad.take_lines().unwrap_or(own));
    }
    st.events = sim.n_events;
    st
}

/// replay mode: the input is ndjson; every `reset` line starts a run with its cfg
pub async fn run_replay(ad: &mut dyn Adapter, input: &str, with_finale: bool, out: &mut Vec<String>) -> RunStats {
    let mut sim = Sim::new();
    let mut st = RunStats { runs: 0, events: 0, skipped: 0 };
    let mut runs: Vec<(Value, Vec<Value>)> = vec![];
    for line in input.lines() {
        let line = line.trim();
        if line.is_empty() {
            continue;
        }
        let v: Value = match serde_json::from_str(line) {
            Ok(v) => v,
            Err(_) => continue,
        };
        if v.get("e").and_then(|x| x.as_str()) == Some("reset") {
            runs.push((v, vec![]));
        } else if let Some(r) = runs.last_mut() {
            r.1.push(v);
        }
    }
    for (k, (reset, evs)) in runs.iter().enumerate() {
        let cfg = reset.get("cfg").cloned().unwrap_or(json!({}));
        let seed = reset.get("seed").and_then(|x| x.as_u64()).unwrap_or(0);
        let mut rng = Rng::new(seed.wrapping_mul(7919).wrapping_add(k as u64));
        sim.reset(ad.name(), &cfg, seed, k);
        ad.build(&cfg, &mut sim);
        st.skipped += drive_schedule(&mut sim, ad, evs, &mut rng).await;
        if with_finale {
            let fin = ad.finale(&cfg);
            st.skipped += drive_schedule(&mut sim, ad, &fin, &mut rng).await;
        }
        sim.obs = None;
        sim.tap = None;
        sim.callers.clear();
        ad.teardown();
        st.runs += 1;
        let own = sim.take_lines();
        out.extend(ad.take_lines().unwrap_or(own));
    }
    st.events = sim.n_events;
    st
}

// How callers obtain the service they call (state shared by all clones must not depend on it):
thread_local! {
    /// set while a parked handle (driven to readiness long ago) is being used: the adapter must not poll it again
    pub static SKIP_READY: std::cell::Cell<bool> = const { std::cell::Cell::new(false) };
}
/// poll_ready with a no-op waker, unless the handle in use was driven to readiness earlier (mode 3)
pub fn ready_unless_parked<S: tower::Service<Req>>(s: &mut S) {
    if SKIP_READY.with(|c| c.get()) {
        return;
    }
    let w = futures::task::noop_waker();
    let mut cx = std::task::Context::from_waker(&w);
    let _ = s.poll_ready(&mut cx);
}
/// poll_ready until it answers Ready(Ok) (at most 50 times): a caller that meets a readiness error of a service that
/// recovers polls again; never calls a service that has not answered ready
pub fn ready_until_ok<S: tower::Service<Req>>(s: &mut S) {
    if SKIP_READY.with(|c| c.get()) {
        return;
    }
    let w = futures::task::noop_waker();
    let mut cx = std::task::Context::from_waker(&w);
    for _ in 0..50 {
        if let std::task::Poll::Ready(Ok(())) = s.poll_ready(&mut cx) {
            return;
        }
    }
}
/// mode 0 = a fresh clone per request, 1 = one long-lived handle for every request,
/// 2 = two long-lived clones used alternately, 3 = a fresh clone per request, except that every
/// third request goes through the handle that has been ready (and parked) the longest - Tower
/// allows any delay between poll_ready and call.
pub struct Handles<S: Clone> {
    pub base: S,
    alt: S,
    pub mode: u64,
    n: u64,
    parked: std::collections::VecDeque<S>,
}
impl<S: Clone + tower::Service<Req>> Handles<S> {
    pub fn new(base: S, mode: u64) -> Self {
        let alt = base.clone();
        let mut parked = std::collections::VecDeque::new();
        if mode == 3 {
            for _ in 0..3 {
                let mut p = base.clone();
                ready_until_ok(&mut p);
                parked.push_back(p);
            }
        }
        Handles { base, alt, mode, n: 0, parked }
    }
    /// run f on the handle chosen for the next request
    pub fn with<R>(&mut self, f: impl FnOnce(&mut S) -> R) -> R {
        self.n += 1;
        match self.mode {
            1 => f(&mut self.base),
            2 => {
                if self.n % 2 == 0 {
                    f(&mut self.alt)
                } else {
                    f(&mut self.base)
                }
            }
            3 if self.n % 3 == 0 => {
                let mut p = self.parked.pop_front().unwrap();
                // the replacement is parked before the call is made: a call that panics (injected) must not use up the pool
                let mut next = self.base.clone();
                ready_until_ok(&mut next);
                self.parked.push_back(next);
                struct Skip;
                impl Drop for Skip {
                    fn drop(&mut self) {
                        SKIP_READY.with(|c| c.set(false));
                    }
                }
                SKIP_READY.with(|c| c.set(true));
                let _reset = Skip;
                f(&mut p)
            }
            _ => {
                let mut c = self.base.clone();
                f(&mut c)
            }
        }
    }
}

/// Traffic through a *sibling* service built from the same layer value as the service under test, over an inner
/// service of its own (a separate world, invisible in the trace): services built from one layer are independent
/// unless the layer is documented to share (SharedCacheLayer, a retry budget, the adaptive algorithm).
/// `n` calls are made and polled once; the first two resolve at once (an error, a success), the others stay in
/// flight for the whole run (their futures are kept alive here and never polled again).
pub struct Sibling {
    _futs: Vec<std::pin::Pin<Box<dyn std::future::Future<Output = ()>>>>,
    _w: W,
}
pub fn sibling_world() -> W {
    let w: W = std::sync::Arc::new(std::sync::Mutex::new(World::new()));
    w.lock().unwrap().immediate = vec![GOut::Err(1), GOut::Ok];
    w
}
pub fn sibling_traffic<S>(mut svc: S, w: W, n: usize) -> Sibling
where
    S: tower::Service<Req>,
    S::Future: 'static,
{
    let mut futs: Vec<std::pin::Pin<Box<dyn std::future::Future<Output = ()>>>> = vec![];
    let wk = futures::task::noop_waker();
    let mut cx = std::task::Context::from_waker(&wk);
    for i in 0..n {
        let _ = svc.poll_ready(&mut cx);
        let f = svc.call(Req { id: 9000 + i as u32, key: 1 + (i as u32 % 2) });
        let mut f: std::pin::Pin<Box<dyn std::future::Future<Output = ()>>> = Box::pin(async move {
            let _ = f.await;
        });
        // a panic of the sibling's own making is none of the run's business
        let r = std::panic::catch_unwind(std::panic::AssertUnwindSafe(|| f.as_mut().poll(&mut cx)));
        if let Ok(std::task::Poll::Pending) = r {
            futs.push(f);
        }
    }
    Sibling { _futs: futs, _w: w }
}
