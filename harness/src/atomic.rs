//! Atomic-step engine (DESIGN.md 3.2): every operation runs on its own OS thread and blocks
//! before each instrumented atomic operation (tower_resilience_core::verif::sched) until the
//! scheduler lets it perform exactly that one. A schedule is a sequence of thread choices;
//! the start ("call") and the return of an operation are scheduling points too.
#![allow(dead_code)]
use crate::sim::{Obj, Rng};
use serde_json::{json, Value};
use std::sync::mpsc::{channel, Receiver, Sender};
use std::sync::Arc;
use tower_resilience_core::verif::sched;

enum Msg {
    AtYield(usize, &'static str),
    Done(usize, String),
}
pub type OpFn = Box<dyn FnOnce() -> String + Send>;
pub struct Scenario {
    pub ops: Vec<(String, OpFn)>,
    /// phase of every operation (empty = all 0): only the unfinished operations of the lowest phase are
    /// enabled, so operations alone in their phase run sequentially before / after the concurrent ones
    pub phase: Vec<usize>,
    pub obs: Arc<dyn Fn() -> Obj + Send + Sync>,
}

/// Run one schedule: follow `prefix`, afterwards use `pick` to choose among enabled threads.
/// Returns the events and the choice points (chosen, enabled).
pub fn run_schedule(sc: Scenario, prefix: &[usize], pick: &mut dyn FnMut(&[usize]) -> usize) -> (Vec<Value>, Vec<(usize, Vec<usize>)>) {
    let n = sc.ops.len();
    let (tx, rx): (Sender<Msg>, Receiver<Msg>) = channel();
    let mut gos: Vec<Sender<()>> = vec![];
    let mut handles = vec![];
    let mut names = vec![];
    for (tid, (name, f)) in sc.ops.into_iter().enumerate() {
        names.push(name);
        let (gtx, grx) = channel::<()>();
        gos.push(gtx);
        let tx = tx.clone();
        handles.push(std::thread::spawn(move || {
            let tx2 = tx.clone();
            let grx = std::rc::Rc::new(grx);
            let g2 = grx.clone();
            sched::install(Box::new(move |opk| {
                tx2.send(Msg::AtYield(tid, opk)).unwrap();
                g2.recv().unwrap();
            }));
            grx.recv().unwrap(); // permission to start the call
            let r = std::panic::catch_unwind(std::panic::AssertUnwindSafe(f)).unwrap_or_else(|_| "panic".to_string());
            sched::uninstall();
            tx.send(Msg::Done(tid, r)).unwrap();
        }));
    }
    let obs = sc.obs;
    let phase: Vec<usize> = if sc.phase.len() == n { sc.phase.clone() } else { vec![0; n] };
    let mut status = vec![0u8; n]; // 0 not started, 1 at a yield point, 2 done
    let mut events = vec![];
    let mut choices = vec![];
    let mut step = 0;
    loop {
        let live: Vec<usize> = (0..n).filter(|&t| status[t] != 2).collect();
        if live.is_empty() {
            break;
        }
        let cur = live.iter().map(|&t| phase[t]).min().unwrap();
        let enabled: Vec<usize> = live.into_iter().filter(|&t| phase[t] == cur).collect();
        let t = if step < prefix.len() && enabled.contains(&prefix[step]) { prefix[step] } else { pick(&enabled) };
        choices.push((t, enabled.clone()));
        step += 1;
        if status[t] == 0 {
            let mut m = Obj::new();
            m.insert("e".into(), json!("call"));
            m.insert("th".into(), json!(t + 1));
            m.insert("op".into(), json!(names[t]));
            for (k, v) in obs() {
                m.insert(k, v);
            }
            events.push(Value::Object(m));
        }
        gos[t].send(()).unwrap();
        let mut m = Obj::new();
        match rx.recv().unwrap() {
            Msg::AtYield(_, k) => {
                // the thread has performed everything up to (not including) its next atomic operation `k`
                status[t] = 1;
                m.insert("e".into(), json!("step"));
                m.insert("th".into(), json!(t + 1));
                m.insert("next".into(), json!(k));
            }
            Msg::Done(_, r) => {
                status[t] = 2;
                m.insert("e".into(), json!("ret"));
                m.insert("th".into(), json!(t + 1));
                m.insert("op".into(), json!(names[t]));
                m.insert("res".into(), json!(r));
            }
        }
        for (k, v) in obs() {
            m.insert(k, v);
        }
        events.push(Value::Object(m));
    }
    for h in handles {
        let _ = h.join();
    }
    (events, choices)
}

pub struct ExploreStats {
    pub schedules: usize,
    pub events: usize,
    pub exhaustive: bool,
}
/// Stateless depth-first enumeration of all schedules of a scenario (up to `cap`), then
/// `extra` seeded random schedules if the space was not exhausted.
pub fn explore(mk: &dyn Fn() -> Scenario, reset: &Value, cap: usize, extra: usize, rng: &mut Rng, out: &mut Vec<String>) -> ExploreStats {
    let mut stack: Vec<Vec<usize>> = vec![vec![]];
    let mut st = ExploreStats { schedules: 0, events: 0, exhaustive: true };
    while let Some(prefix) = stack.pop() {
        if st.schedules >= cap {
            st.exhaustive = false;
            break;
        }
        let (events, choices) = run_schedule(mk(), &prefix, &mut |en| en[0]);
        st.schedules += 1;
        out.push(reset.to_string());
        st.events += 1 + events.len();
        for e in &events {
            out.push(e.to_string());
        }
        for i in prefix.len()..choices.len() {
            let (chosen, enabled) = &choices[i];
            for &alt in enabled {
                if alt > *chosen {
                    let mut p: Vec<usize> = choices[..i].iter().map(|c| c.0).collect();
                    p.push(alt);
                    stack.push(p);
                }
            }
        }
    }
    if !st.exhaustive {
        for _ in 0..extra {
            let mut r2 = Rng::new(rng.next());
            let (events, _) = run_schedule(mk(), &[], &mut |en| en[r2.below(en.len())]);
            st.schedules += 1;
            out.push(reset.to_string());
            st.events += 1 + events.len();
            for e in &events {
                out.push(e.to_string());
            }
        }
    }
    st
}
