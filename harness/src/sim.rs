//! Deterministic single-thread simulator: hand-polled caller futures, gated inner service,
//! virtual time (tokio paused clock), ndjson event log. See DESIGN.md section 3.1.
//! Nothing in here knows what the right answer is.
#![allow(dead_code)]
use serde_json::{json, Map, Value};
use std::collections::BTreeMap;
use std::future::Future;
use std::panic::{catch_unwind, AssertUnwindSafe};
use std::pin::Pin;
use std::sync::atomic::{AtomicBool, Ordering};
use std::sync::{Arc, Mutex};
use std::task::{Context, Poll, Wake, Waker};
use std::time::Duration;

pub type Obj = Map<String, Value>;

// ---------------------------------------------------------------- rng
#[derive(Clone)]
pub struct Rng(pub u64);
impl Rng {
    pub fn new(seed: u64) -> Self {
        let mut r = Rng(seed.wrapping_mul(0x9E3779B97F4A7C15).wrapping_add(0x2545F4914F6CDD1D));
        for _ in 0..4 {
            r.next();
        }
        r
    }
    pub fn next(&mut self) -> u64 {
        // splitmix64
        self.0 = self.0.wrapping_add(0x9E3779B97F4A7C15);
        let mut z = self.0;
        z = (z ^ (z >> 30)).wrapping_mul(0xBF58476D1CE4E5B9);
        z = (z ^ (z >> 27)).wrapping_mul(0x94D049BB133111EB);
        z ^ (z >> 31)
    }
    pub fn below(&mut self, n: usize) -> usize {
        if n == 0 {
            0
        } else {
            (self.next() % n as u64) as usize
        }
    }
    pub fn pct(&mut self, p: u32) -> bool {
        (self.next() % 100) < p as u64
    }
    pub fn pick<'a, T>(&mut self, xs: &'a [T]) -> &'a T {
        &xs[self.below(xs.len())]
    }
    pub fn weighted(&mut self, ws: &[u32]) -> usize {
        let tot: u32 = ws.iter().sum();
        if tot == 0 {
            return 0;
        }
        let mut x = (self.next() % tot as u64) as u32;
        for (i, w) in ws.iter().enumerate() {
            if x < *w {
                return i;
            }
            x -= *w;
        }
        ws.len() - 1
    }
}

// ---------------------------------------------------------------- request / response / error tokens
#[derive(Clone, Debug, PartialEq, Eq, Hash)]
pub struct Req {
    pub id: u32,
    pub key: u32,
}
/// A key type whose hash says very little (all keys collide) while equality is exact: a legal Hash / Eq pair;
/// tables keyed by it must still tell the keys apart.
#[derive(Clone, Debug, PartialEq, Eq, PartialOrd, Ord)]
pub struct CKey(pub u32);
impl std::hash::Hash for CKey {
    fn hash<H: std::hash::Hasher>(&self, state: &mut H) {
        7u8.hash(state)
    }
}
#[derive(Clone, Debug, PartialEq, Eq)]
pub struct Resp {
    pub serial: u64,
    pub req: u32,
}
#[derive(Clone, Debug, PartialEq, Eq)]
pub struct IErr {
    pub code: u32,
    pub serial: u64,
}
impl std::fmt::Display for IErr {
    fn fmt(&self, f: &mut std::fmt::Formatter<'_>) -> std::fmt::Result {
        write!(f, "inner error code={} serial={}", self.code, self.serial)
    }
}
/// an error of code 2 is caused by a (connection-like) error of code 1: predicates must judge the error they
/// are given, not its causes
static CAUSE: IErr = IErr { code: 1, serial: 0 };
impl std::error::Error for IErr {
    fn source(&self) -> Option<&(dyn std::error::Error + 'static)> {
        if self.code == 2 {
            Some(&CAUSE)
        } else {
            None
        }
    }
}

/// Normalised outcome of a caller future.
#[derive(Clone, Debug)]
pub enum Out {
    Ok { val: u64, req: u32 },
    Err { kind: String, val: i64 },
}
pub type CallFut = Pin<Box<dyn Future<Output = Out>>>;

// ---------------------------------------------------------------- gated inner service
#[derive(Clone, Debug, PartialEq)]
pub enum GOut {
    Ok,
    Err(u32),
    Panic,
}
impl GOut {
    pub fn name(&self) -> String {
        match self {
            GOut::Ok => "ok".into(),
            GOut::Err(c) => format!("e{}", c),
            GOut::Panic => "panic".into(),
        }
    }
    pub fn parse(s: &str) -> GOut {
        match s {
            "ok" => GOut::Ok,
            "panic" => GOut::Panic,
            x if x.starts_with('e') => GOut::Err(x[1..].parse().unwrap_or(1)),
            _ => GOut::Err(1),
        }
    }
}
#[derive(Clone, Debug, PartialEq)]
pub enum GState {
    Pending,
    Resolved(GOut),
    Finished,
    Dropped,
}
pub struct Gate {
    pub req: Req,
    pub inst: usize,
    pub state: GState,
    pub waker: Option<Waker>,
    pub started_at: u64,
}
#[derive(Clone, Debug)]
pub enum IEv {
    Start { i: usize, c: u32, key: u32, inst: usize },
    Done { i: usize, out: String },
    Drop { i: usize },
    Clone { from: usize, to: usize },
    Ready { inst: usize, res: String },
    CallUnready { inst: usize },
    Call { inst: usize },
}
/// Readiness script for the strict inner service (C20): what the next poll_ready returns.
#[derive(Clone, Debug, PartialEq)]
pub enum ReadyAns {
    Ready,
    Pending,
    Err(u32),
}
pub struct World {
    pub gates: Vec<Gate>,
    pub log: Vec<IEv>,
    pub track_inst: bool,
    pub n_inst: usize,
    /// per instance: has poll_ready returned Ready since the last call?
    pub ready: Vec<bool>,
    pub ready_script: Vec<ReadyAns>,
    /// if set, a gate is resolved at creation with the scripted outcome (immediate inner service)
    pub immediate: Vec<GOut>,
    /// every inner call resolves at once with this outcome (immediate inner service)
    pub auto: Option<GOut>,
    /// back-pressure: while set, poll_ready of every instance answers Pending (and nobody is woken)
    pub block_ready: bool,
    /// while > 0 the next Service::call of the wrapped service panics (before anything is logged)
    pub call_panic: usize,
    /// the wrapped service takes this many ms *inside Service::call* (the paused clock is moved synchronously)
    pub call_delay: u64,
    pub clock0: tokio::time::Instant,
}
impl World {
    pub fn new() -> Self {
        World {
            gates: vec![],
            log: vec![],
            track_inst: false,
            n_inst: 1,
            ready: vec![false],
            ready_script: vec![],
            immediate: vec![],
            auto: None,
            block_ready: false,
            call_panic: 0,
            call_delay: 0,
            clock0: tokio::time::Instant::now(),
        }
    }
    pub fn pending_gates(&self) -> Vec<usize> {
        (0..self.gates.len()).filter(|&i| self.gates[i].state == GState::Pending).map(|i| i + 1).collect()
    }
}
pub type W = Arc<Mutex<World>>;

pub struct Inner {
    pub w: W,
    pub inst: usize,
}
impl Inner {
    pub fn new(w: &W) -> Self {
        Inner { w: w.clone(), inst: 0 }
    }
}
impl Clone for Inner {
    fn clone(&self) -> Self {
        let mut g = self.w.lock().unwrap();
        if g.track_inst {
            let to = g.n_inst;
            g.n_inst += 1;
            g.ready.push(false);
            let from = self.inst;
            g.log.push(IEv::Clone { from, to });
            Inner { w: self.w.clone(), inst: to }
        } else {
            Inner { w: self.w.clone(), inst: self.inst }
        }
    }
}
impl tower::Service<Req> for Inner {
    type Response = Resp;
    type Error = IErr;
    type Future = GateFut;
    fn poll_ready(&mut self, cx: &mut Context<'_>) -> Poll<Result<(), IErr>> {
        let mut g = self.w.lock().unwrap();
        if g.block_ready {
            return Poll::Pending;
        }
        if !g.track_inst {
            return Poll::Ready(Ok(()));
        }
        let ans = if g.ready_script.is_empty() { ReadyAns::Ready } else { g.ready_script.remove(0) };
        let inst = self.inst;
        match ans {
            ReadyAns::Ready => {
                g.ready[inst] = true;
                g.log.push(IEv::Ready { inst, res: "ready".into() });
                Poll::Ready(Ok(()))
            }
            ReadyAns::Pending => {
                g.log.push(IEv::Ready { inst, res: "pending".into() });
                cx.waker().wake_by_ref();
                Poll::Pending
            }
            ReadyAns::Err(c) => {
                g.log.push(IEv::Ready { inst, res: format!("e{}", c) });
                Poll::Ready(Err(IErr { code: c, serial: 0 }))
            }
        }
    }
    fn call(&mut self, req: Req) -> GateFut {
        let mut g = self.w.lock().unwrap();
        if g.call_panic > 0 {
            g.call_panic -= 1;
            drop(g);
            panic!("injected panic in Service::call of the wrapped service");
        }
        if g.call_delay > 0 {
            // tokio::time::advance moves the paused clock in its synchronous first part (before its yield): one poll of it
            // is "time passing inside a synchronous call"
            let d = g.call_delay;
            drop(g);
            let mut f = Box::pin(tokio::time::advance(Duration::from_millis(d)));
            let w = futures::task::noop_waker();
            let mut cx = Context::from_waker(&w);
            let _ = f.as_mut().poll(&mut cx);
            drop(f);
            g = self.w.lock().unwrap();
        }
        let i = g.gates.len() + 1;
        let inst = self.inst;
        if g.track_inst {
            g.log.push(IEv::Call { inst });
            if !g.ready[inst] {
                g.log.push(IEv::CallUnready { inst });
            }
            g.ready[inst] = false;
        }
        let t = g.clock0.elapsed().as_millis() as u64;
        let state = if !g.immediate.is_empty() {
            GState::Resolved(g.immediate.remove(0))
        } else if let Some(a) = g.auto.clone() {
            GState::Resolved(a)
        } else {
            GState::Pending
        };
        g.log.push(IEv::Start { i, c: req.id, key: req.key, inst });
        g.gates.push(Gate { req, inst, state, waker: None, started_at: t });
        GateFut { w: self.w.clone(), i, finished: false }
    }
}
pub struct GateFut {
    w: W,
    i: usize,
    finished: bool,
}
impl Future for GateFut {
    type Output = Result<Resp, IErr>;
    fn poll(mut self: Pin<&mut Self>, cx: &mut Context<'_>) -> Poll<Self::Output> {
        let i = self.i;
        let mut g = self.w.lock().unwrap();
        let st = g.gates[i - 1].state.clone();
        match st {
            GState::Pending => {
                g.gates[i - 1].waker = Some(cx.waker().clone());
                Poll::Pending
            }
            GState::Resolved(out) => {
                g.gates[i - 1].state = GState::Finished;
                g.log.push(IEv::Done { i, out: out.name() });
                let req = g.gates[i - 1].req.id;
                drop(g);
                self.finished = true;
                match out {
                    GOut::Ok => Poll::Ready(Ok(Resp { serial: i as u64, req })),
                    GOut::Err(c) => Poll::Ready(Err(IErr { code: c, serial: i as u64 })),
                    GOut::Panic => panic!("injected inner panic"),
                }
            }
            _ => panic!("gate future polled after completion"),
        }
    }
}
impl Drop for GateFut {
    fn drop(&mut self) {
        if !self.finished {
            if let Ok(mut g) = self.w.lock() {
                let i = self.i;
                g.gates[i - 1].state = GState::Dropped;
                g.log.push(IEv::Drop { i });
            }
        }
    }
}

// ---------------------------------------------------------------- callers
pub struct Flag {
    pub woken: AtomicBool,
    pub in_poll: AtomicBool,
    pub self_woken: AtomicBool,
}
impl Wake for Flag {
    fn wake(self: Arc<Self>) {
        self.wake_by_ref()
    }
    fn wake_by_ref(self: &Arc<Self>) {
        self.woken.store(true, Ordering::SeqCst);
        if self.in_poll.load(Ordering::SeqCst) {
            self.self_woken.store(true, Ordering::SeqCst);
        }
    }
}
pub struct Caller {
    pub fut: Option<CallFut>,
    pub flag: Arc<Flag>,
    pub req: Req,
    /// woke itself during its last poll (busy-waiting future)
    pub spinner: bool,
    /// has been polled since the last state-changing event of this instant
    pub fresh: bool,
    pub polls: usize,
}
#[derive(Debug)]
pub enum PollRes {
    Pending,
    Ready(Out),
    Panic(String),
    Gone,
}

pub struct Sim {
    pub w: W,
    pub callers: BTreeMap<usize, Caller>,
    pub t0: tokio::time::Instant,
    pub lines: Vec<String>,
    pub obs: Option<Box<dyn FnMut() -> Obj>>,
    pub n_events: usize,
    pub settle_rounds: usize,
    /// keep finished futures alive until the environment reaps them (futures held by select!/join!)
    pub hold_finished: bool,
    pub zombies: BTreeMap<usize, CallFut>,
    /// coupled clocks: every millisecond of virtual time also passes on the real clock (std::time), so that code which
    /// reads the wall clock for a decision sees at least the virtual elapsed time
    pub real_sleep: bool,
    /// sees every event this simulator writes (in-situ runs forward the passage of time to the layer traces)
    pub tap: Option<Box<dyn FnMut(&Obj)>>,
    cp_mark: bool,
    pub seed: u64,
    pub run: usize,
}

fn panic_msg(e: Box<dyn std::any::Any + Send>) -> String {
    if let Some(s) = e.downcast_ref::<&str>() {
        s.to_string()
    } else if let Some(s) = e.downcast_ref::<String>() {
        s.clone()
    } else {
        "panic".into()
    }
}

impl Sim {
    pub fn new() -> Self {
        Sim {
            w: Arc::new(Mutex::new(World::new())),
            callers: BTreeMap::new(),
            t0: tokio::time::Instant::now(),
            lines: vec![],
            obs: None,
            n_events: 0,
            settle_rounds: 8,
            hold_finished: false,
            zombies: BTreeMap::new(),
            real_sleep: false,
            tap: None,
            cp_mark: false,
            seed: 0,
            run: 0,
        }
    }
    pub fn now_ms(&self) -> u64 {
        self.t0.elapsed().as_millis() as u64
    }
    /// Start a new run: drop everything, fresh world, write the reset line.
    pub fn reset(&mut self, comp: &str, cfg: &Value, seed: u64, run: usize) {
        self.obs = None;
        self.tap = None;
        self.seed = seed;
        self.run = run;
        self.callers.clear();
        self.zombies.clear();
        self.hold_finished = false;
        self.real_sleep = false;
        self.w = Arc::new(Mutex::new(World::new()));
        self.t0 = tokio::time::Instant::now();
        self.w.lock().unwrap().clock0 = self.t0;
        let line = json!({"e":"reset","comp":comp,"cfg":cfg,"seed":seed,"run":run});
        self.lines.push(line.to_string());
        self.n_events += 1;
    }
    pub async fn settle(&mut self) {
        for _ in 0..self.settle_rounds {
            tokio::task::yield_now().await;
        }
    }
    /// Drain the inner-service log into fields of the event.
    fn drain_inner(&mut self, m: &mut Obj) {
        let mut g = self.w.lock().unwrap();
        let mut starts = vec![];
        let mut dones = vec![];
        let mut drops = vec![];
        let mut insts = vec![];
        for e in g.log.drain(..) {
            match e {
                IEv::Start { i, c, key, inst } => starts.push(json!({"i":i,"c":c,"key":key,"inst":inst})),
                IEv::Done { i, out } => dones.push(json!({"i":i,"out":out})),
                IEv::Drop { i } => drops.push(json!(i)),
                IEv::Clone { from, to } => insts.push(json!({"k":"clone","a":from,"b":to})),
                IEv::Ready { inst, res } => insts.push(json!({"k":"ready","a":inst,"res":res})),
                IEv::CallUnready { inst } => insts.push(json!({"k":"unready_call","a":inst})),
                IEv::Call { inst } => insts.push(json!({"k":"call","a":inst})),
            }
        }
        let track = g.track_inst;
        drop(g);
        m.insert("ns".into(), json!(starts.len()));
        m.insert("nd".into(), json!(dones.len()));
        m.insert("ndr".into(), json!(drops.len()));
        m.insert("si".into(), starts.first().map(|s| s["i"].clone()).unwrap_or(json!(0)));
        m.insert("sc".into(), starts.first().map(|s| s["c"].clone()).unwrap_or(json!(0)));
        m.insert("sk".into(), starts.first().map(|s| s["key"].clone()).unwrap_or(json!(0)));
        m.insert("starts".into(), Value::Array(starts));
        m.insert("dones".into(), Value::Array(dones));
        m.insert("drops".into(), Value::Array(drops));
        if track {
            m.insert("insts".into(), Value::Array(insts));
        }
    }
    /// Write one event line (adds t, inner activity, component observation).
    pub fn emit(&mut self, mut m: Obj) {
        m.insert("t".into(), json!(self.now_ms()));
        self.drain_inner(&mut m);
        if let Some(o) = self.obs.as_mut() {
            let ob = o();
            for (k, v) in ob {
                m.insert(k, v);
            }
        }
        if let Some(t) = self.tap.as_mut() {
            t(&m);
        }
        self.lines.push(Value::Object(m).to_string());
        self.n_events += 1;
    }
    pub fn ev(e: &str) -> Obj {
        let mut m = Map::new();
        m.insert("e".into(), json!(e));
        m
    }
    fn state_changed(&mut self) {
        for c in self.callers.values_mut() {
            c.fresh = false;
        }
    }
    /// Register a caller whose future `mk` builds (poll_ready + call happen inside `mk`).
    /// like create, but a call of the wrapped service made during this Service::call panics
    pub async fn create_cp(&mut self, c: usize, req: Req, mk: &mut dyn FnMut(&Req) -> CallFut) {
        self.w.lock().unwrap().call_panic = 1;
        self.cp_mark = true;
        self.create(c, req, mk).await;
    }
    pub async fn create(&mut self, c: usize, req: Req, mk: &mut dyn FnMut(&Req) -> CallFut) {
        let r = catch_unwind(AssertUnwindSafe(|| mk(&req)));
        self.w.lock().unwrap().call_panic = 0;
        let mut m = Sim::ev("create");
        if std::mem::take(&mut self.cp_mark) {
            m.insert("cp".into(), json!(1));
        }
        m.insert("c".into(), json!(c));
        m.insert("key".into(), json!(req.key));
        match r {
            Ok(fut) => {
                let flag = Arc::new(Flag { woken: AtomicBool::new(true), in_poll: AtomicBool::new(false), self_woken: AtomicBool::new(false) });
                self.callers.insert(c, Caller { fut: Some(fut), flag, req, spinner: false, fresh: false, polls: 0 });
                m.insert("res".into(), json!("created"));
            }
            Err(e) => {
                m.insert("res".into(), json!("panic"));
                m.insert("msg".into(), json!(panic_msg(e)));
            }
        }
        self.state_changed();
        self.settle().await;
        self.emit(m);
    }
    pub async fn poll(&mut self, c: usize) -> PollRes {
        let (res, selfw) = {
            let Some(cl) = self.callers.get_mut(&c) else { return PollRes::Gone };
            let Some(fut) = cl.fut.as_mut() else { return PollRes::Gone };
            cl.flag.woken.store(false, Ordering::SeqCst);
            cl.flag.self_woken.store(false, Ordering::SeqCst);
            cl.flag.in_poll.store(true, Ordering::SeqCst);
            let w = Waker::from(cl.flag.clone());
            let mut cx = Context::from_waker(&w);
            // Who owns a future decides when it is dropped after a panic: a spawned task's future is dropped after the
            // unwind was caught; a future awaited inside another future lives in that future's frame and is dropped
            // WHILE the panic unwinds (std::thread::panicking() is true in its Drop). Even callers are frame-owned.
            struct FrameOwned<'a>(&'a mut Option<CallFut>, bool);
            impl Drop for FrameOwned<'_> {
                fn drop(&mut self) {
                    if self.1 && std::thread::panicking() {
                        drop(self.0.take());
                    }
                }
            }
            let frame_owned = c % 2 == 0;
            let _ = fut;
            let slot = &mut cl.fut;
            let r = catch_unwind(AssertUnwindSafe(|| {
                let g = FrameOwned(slot, frame_owned);
                g.0.as_mut().unwrap().as_mut().poll(&mut cx)
            }));
            cl.flag.in_poll.store(false, Ordering::SeqCst);
            cl.polls += 1;
            let selfw = cl.flag.self_woken.load(Ordering::SeqCst);
            cl.spinner = selfw;
            let res = match r {
                Ok(Poll::Pending) => PollRes::Pending,
                Ok(Poll::Ready(o)) => PollRes::Ready(o),
                Err(e) => PollRes::Panic(panic_msg(e)),
            };
            (res, selfw)
        };
        let mut m = Sim::ev("poll");
        m.insert("c".into(), json!(c));
        m.insert("selfw".into(), json!(selfw));
        let mut finished = false;
        match &res {
            PollRes::Pending => {
                m.insert("res".into(), json!("pending"));
            }
            PollRes::Ready(Out::Ok { val, req }) => {
                m.insert("res".into(), json!("ok"));
                m.insert("val".into(), json!(val));
                m.insert("rq".into(), json!(req));
                finished = true;
            }
            PollRes::Ready(Out::Err { kind, val }) => {
                m.insert("res".into(), json!("err"));
                m.insert("kind".into(), json!(kind));
                m.insert("val".into(), json!(val));
                finished = true;
            }
            PollRes::Panic(msg) => {
                m.insert("res".into(), json!("panic"));
                m.insert("msg".into(), json!(msg));
                finished = true;
            }
            PollRes::Gone => {}
        }
        if finished {
            // an executor drops a finished (or panicked) task's future
            if let Some(cl) = self.callers.get_mut(&c) {
                let f = cl.fut.take();
                if self.hold_finished && !matches!(res, PollRes::Panic(_)) {
                    if let Some(f) = f {
                        self.zombies.insert(c, f);
                    }
                } else {
                    let _ = catch_unwind(AssertUnwindSafe(move || drop(f)));
                }
            }
            self.callers.remove(&c);
        }
        self.settle().await;
        // a pending poll of a spinner that touched no inner call changes nothing
        let quiet = matches!(res, PollRes::Pending) && self.w.lock().unwrap().log.is_empty();
        if quiet {
            if let Some(cl) = self.callers.get_mut(&c) {
                cl.fresh = true;
            }
        } else {
            self.state_changed();
            if let Some(cl) = self.callers.get_mut(&c) {
                cl.fresh = true;
            }
        }
        self.emit(m);
        res
    }
    /// Resolve gate i (1-based). Returns false if it is not pending.
    pub async fn complete(&mut self, i: usize, out: GOut) -> bool {
        let (c, wk) = {
            let mut g = self.w.lock().unwrap();
            if i == 0 || i > g.gates.len() || g.gates[i - 1].state != GState::Pending {
                return false;
            }
            g.gates[i - 1].state = GState::Resolved(out.clone());
            (g.gates[i - 1].req.id, g.gates[i - 1].waker.take())
        };
        if let Some(w) = wk {
            w.wake();
        }
        let mut m = Sim::ev("complete");
        m.insert("i".into(), json!(i));
        m.insert("c".into(), json!(c));
        m.insert("out".into(), json!(out.name()));
        self.state_changed();
        self.settle().await;
        self.emit(m);
        true
    }
    pub async fn drop_caller(&mut self, c: usize) -> bool {
        let Some(mut cl) = self.callers.remove(&c) else { return false };
        let f = cl.fut.take();
        let r = catch_unwind(AssertUnwindSafe(move || drop(f)));
        let mut m = Sim::ev("drop");
        m.insert("c".into(), json!(c));
        if r.is_err() {
            m.insert("res".into(), json!("panic"));
        }
        self.state_changed();
        self.settle().await;
        self.emit(m);
        true
    }
    /// drop a future that finished earlier (only with hold_finished)
    pub async fn reap(&mut self, c: usize) -> bool {
        let Some(f) = self.zombies.remove(&c) else { return false };
        let r = catch_unwind(AssertUnwindSafe(move || drop(f)));
        let mut m = Sim::ev("reap");
        m.insert("c".into(), json!(c));
        if r.is_err() {
            m.insert("res".into(), json!("panic"));
        }
        self.state_changed();
        self.settle().await;
        self.emit(m);
        true
    }
    pub fn needs_poll(&self) -> Vec<usize> {
        self.callers
            .iter()
            .filter(|(_, cl)| cl.fut.is_some() && cl.flag.woken.load(Ordering::SeqCst) && !(cl.spinner && cl.fresh))
            .map(|(c, _)| *c)
            .collect()
    }
    pub fn live(&self) -> Vec<usize> {
        self.callers.iter().filter(|(_, cl)| cl.fut.is_some()).map(|(c, _)| *c).collect()
    }
    pub fn spinners(&self) -> Vec<usize> {
        self.callers.iter().filter(|(_, cl)| cl.fut.is_some() && cl.spinner).map(|(c, _)| *c).collect()
    }
    /// Let virtual time pass, 1 ms at a time, never beyond a timer that wakes a caller or
    /// causes inner-service activity. Logs one advance event with the elapsed amount.
    pub async fn advance(&mut self, d: u64) -> u64 {
        let mut el = 0;
        while el < d {
            tokio::time::advance(Duration::from_millis(1)).await;
            if self.real_sleep {
                std::thread::sleep(Duration::from_millis(1));
            }
            self.settle().await;
            el += 1;
            let any_flag = self.callers.values().any(|cl| cl.fut.is_some() && cl.flag.woken.load(Ordering::SeqCst) && !cl.spinner);
            let any_inner = !self.w.lock().unwrap().log.is_empty();
            if any_flag || any_inner {
                break;
            }
        }
        let woken: Vec<usize> = self
            .callers
            .iter()
            .filter(|(_, cl)| cl.fut.is_some() && cl.flag.woken.load(Ordering::SeqCst) && !cl.spinner)
            .map(|(c, _)| *c)
            .collect();
        let mut m = Sim::ev("advance");
        m.insert("d".into(), json!(el));
        m.insert("woken".into(), json!(woken));
        self.state_changed();
        self.emit(m);
        el
    }
    /// Late-polling executor: time passes for the full d although callers may be runnable.
    pub async fn advance_lazy(&mut self, d: u64) -> u64 {
        for _ in 0..d {
            tokio::time::advance(Duration::from_millis(1)).await;
            if self.real_sleep {
                std::thread::sleep(Duration::from_millis(1));
            }
            self.settle().await;
        }
        let mut m = Sim::ev("advance");
        m.insert("d".into(), json!(d));
        m.insert("lazy".into(), json!(true));
        m.insert("woken".into(), json!(Vec::<usize>::new()));
        self.state_changed();
        self.emit(m);
        d
    }
    /// Log a component-specific operation performed by the adapter.
    pub async fn op(&mut self, name: &str, res: Value, extra: Obj) {
        let mut m = Sim::ev("op");
        m.insert("name".into(), json!(name));
        m.insert("res".into(), if res.is_null() { json!("none") } else { res });   // TLC's Json module has no null
        for (k, v) in extra {
            m.insert(k, v);
        }
        self.state_changed();
        self.settle().await;
        self.emit(m);
    }
    pub fn take_lines(&mut self) -> Vec<String> {
        std::mem::take(&mut self.lines)
    }
}

/// Wraps a middleware future so that it stays alive (is not dropped) after it has resolved,
/// until the wrapper itself is dropped -- as a future held by `select!` / `join!` / `&mut fut` would.
pub struct KeepAlive<F: Future, M> {
    fut: Option<Pin<Box<F>>>,
    map: Option<M>,
    done: bool,
}
impl<F: Future, M: FnOnce(F::Output) -> Out + Unpin> Future for KeepAlive<F, M> {
    type Output = Out;
    fn poll(mut self: Pin<&mut Self>, cx: &mut Context<'_>) -> Poll<Out> {
        let this = &mut *self;
        if this.done {
            panic!("KeepAlive polled after completion");
        }
        match this.fut.as_mut().unwrap().as_mut().poll(cx) {
            Poll::Pending => Poll::Pending,
            Poll::Ready(o) => {
                this.done = true;
                Poll::Ready((this.map.take().unwrap())(o))
            }
        }
    }
}
pub fn keep_alive<F: Future + 'static, M: FnOnce(F::Output) -> Out + Unpin + 'static>(f: F, map: M) -> CallFut {
    Box::pin(KeepAlive { fut: Some(Box::pin(f)), map: Some(map), done: false })
}
