//! Adapter: tower-resilience-retry (C05)
use crate::drive::*;
use crate::sim::*;
use serde_json::{json, Value};
use std::sync::Arc;
use std::time::Duration;
use tower::{Layer, Service};
use tower_resilience_retry::{ExponentialBackoff, ExponentialRandomBackoff, FixedInterval, RetryBudget, RetryLayer};

type Svc = <RetryLayer<Req, IErr> as Layer<Inner>>::Service;
pub struct RetryAd {
    svc: Option<Handles<Svc>>,
}
impl RetryAd {
    pub fn new() -> Self {
        RetryAd { svc: None }
    }
}
impl Adapter for RetryAd {
    fn name(&self) -> &'static str {
        "retry"
    }
    fn gen_cfg(&mut self, rng: &mut Rng, _size: Size) -> Value {
        if rng.pct(3) {
            // a long losing streak: 40 attempts under exponential backoff with a small cap (see script)
            return json!({"hm": 0, "max": 40, "perReq": 0, "pred": "all", "bo": "exp", "b0": 1, "cap": 2 + rng.below(3), "budget": -1, "bmax": 3, "btype": "tb",
                          "ord": rng.below(12), "pre": 0, "alt": 0, "bctor": 0, "bmin": 1, "cost": 1, "amount": 1, "fnum": 2});
        }
        let bo = *rng.pick(&["fixed", "exp", "exp", "rand"]);
        let aimd = rng.pct(30);
        let bmax = 2 + rng.below(3) as i64;
        json!({"hm": rng.below(4), "max": rng.below(5), "perReq": if rng.pct(30) { 1 } else { 0 }, "pred": *rng.pick(&["all", "noe2"]), "bo": bo,
               "b0": if bo == "rand" { 2 + 2 * rng.below(2) } else { 1 + rng.below(3) }, "cap": 4 + rng.below(5),
               "budget": if aimd { bmax } else { *rng.pick(&[-1i64, -1, 0, 1, 2, 3]) }, "bmax": if aimd { bmax } else { 3 },
               "btype": if aimd { "aimd" } else { "tb" }, "ord": rng.below(12), "pre": rng.below(2), "alt": rng.below(2), "sub": if bo == "fixed" && rng.pct(40) { 1 } else { 0 }, "bctor": rng.below(3), "base": if rng.pct(40) { 1 + rng.below(3) } else { 0 }, "bmin": 1, "cost": 1 + rng.below(2), "amount": 1 + rng.below(2), "fnum": *rng.pick(&[0u64, 2, 3, 4])})
    }
    fn build(&mut self, cfg: &Value, sim: &mut Sim) {
        let u = |k: &str| cfg[k].as_u64().unwrap();
        type B = tower_resilience_retry::RetryConfigBuilder<Req, IErr>;
        // every option is one step; cfg.ord picks the order in which the steps are applied and cfg.pre adds
        // earlier settings that the real ones override (a builder's later setting wins, earlier ones survive others)
        let mut steps: Vec<Box<dyn FnOnce(B) -> B>> = vec![];
        let (per_req, max) = (u("perReq") == 1, u("max") as usize);
        steps.push(Box::new(move |b: B| if per_req { b.max_attempts_fn(|r: &Req| (r.key as usize).saturating_sub(1)) } else { b.max_attempts(max) }));
        if cfg["pred"] == "noe2" {
            steps.push(Box::new(|b: B| b.retry_on(|e: &IErr| e.code != 2)));
        } else if cfg["pre"].as_u64().unwrap_or(0) == 1 {
            steps.push(Box::new(|b: B| b.retry_on(|_e: &IErr| true)));
        }
        let (bo, b0, cap, alt) = (cfg["bo"].as_str().unwrap().to_string(), u("b0"), u("cap"), cfg["alt"].as_u64().unwrap_or(0) == 1);
        // cfg.sub = 1: the fixed delay is given 100 us short of b0 ms; the timer (millisecond resolution, rounding up)
        // still fires b0 ms later, so the specification's delay is unchanged - but a delay below 1 ms is a delay
        let sub = cfg["sub"].as_u64().unwrap_or(0) == 1;
        steps.push(Box::new(move |b: B| {
            if bo == "fixed" {
                let d = if sub { Duration::from_micros(b0 * 1000 - 100) } else { Duration::from_millis(b0) };
                if alt { b.fixed_backoff(d) } else { b.backoff(FixedInterval::new(d)) }
            } else if bo == "rand" {
                b.backoff(ExponentialRandomBackoff::new(Duration::from_millis(b0), 0.5).max_interval(Duration::from_millis(cap)))
            } else {
                b.backoff(ExponentialBackoff::new(Duration::from_millis(b0)).max_interval(Duration::from_millis(cap)))
            }
        }));
        let mut bud: Option<Arc<dyn RetryBudget>> = None;
        if cfg["budget"].as_i64().unwrap() >= 0 {
            let x: Arc<dyn RetryBudget> = crate::adapters::budget::mk_budget_cfg(
                cfg["btype"].as_str().unwrap(), u("bmin") as usize, u("bmax") as usize, cfg["budget"].as_u64().unwrap() as usize,
                u("amount") as usize, u("cost") as usize, u("fnum"), cfg["bctor"].as_u64().unwrap_or(0));
            let x2 = x.clone();
            steps.push(Box::new(move |b: B| b.budget(x2)));
            bud = Some(x);
        }
        steps.push(Box::new(|b: B| b.name("retry-under-test").on_retry(|_, _| {}).on_error(|_| {})));
        // cfg.base: start from a preset; every setting of it is overridden by the steps below
        let mut b = match cfg["base"].as_u64().unwrap_or(0) {
            1 => RetryLayer::<Req, IErr>::aggressive(),
            2 => RetryLayer::<Req, IErr>::conservative(),
            3 => RetryLayer::<Req, IErr>::exponential_backoff(),
            _ => RetryLayer::<Req, IErr>::builder(),
        };
        if cfg["pre"].as_u64().unwrap_or(0) == 1 {
            b = b.max_attempts(9).retry_on(|_e: &IErr| false).fixed_backoff(Duration::from_millis(50));
        }
        // rotate / reverse the step list according to cfg.ord
        let ord = cfg["ord"].as_u64().unwrap_or(0) as usize;
        let n = steps.len();
        if ord % 2 == 1 {
            steps.reverse();
        }
        steps.rotate_left((ord / 2) % n);
        for st in steps {
            b = st(b);
        }
        self.svc = Some(Handles::new(b.build().layer(Inner::new(&sim.w)), cfg["hm"].as_u64().unwrap_or(0)));
        if let Some(x) = bud {
            sim.obs = Some(Box::new(move || {
                let mut m = Obj::new();
                m.insert("bal".into(), json!(x.balance()));
                m
            }));
        }
    }
    fn mk(&mut self, req: &Req) -> CallFut {
        let f = self.svc.as_mut().unwrap().with(|s| {
            ready_unless_parked(s);
            s.call(req.clone())
        });
        Box::pin(async move {
            match f.await {
                Ok(r) => Out::Ok { val: r.serial, req: r.req },
                Err(e) => Out::Err { kind: format!("inner{}", e.code), val: e.serial as i64 },
            }
        })
    }
    fn params(&self, _cfg: &Value, size: Size, rng: &mut Rng) -> DriveParams {
        let mut p = DriveParams::default();
        p.n = if size == Size::Quick { 2 + rng.below(4) } else { 3 + rng.below(6) };
        p.keys = 5;
        p.steps = if size == Size::Quick { 90 } else { 250 };
        p.horizon = 80;
        p.outs = vec![(GOut::Ok, 3), (GOut::Err(1), 7), (GOut::Err(2), 1)];
        p.w_drop = 1;
        p.w_create = 3;
        p.max_adv = 3;
        p
    }
    fn script(&mut self, cfg: &Value, _size: Size, _rng: &mut Rng) -> Option<Vec<Value>> {
        let max = cfg["max"].as_u64().unwrap_or(0);
        if max < 30 {
            return None;
        }
        let cap = cfg["cap"].as_u64().unwrap();
        let mut v = vec![json!({"e":"create","c":1,"key":1}), json!({"e":"poll","c":1})];
        for _ in 0..max {
            v.push(json!({"e":"complete","c":1,"out":"e1"}));
            v.push(json!({"e":"poll","c":1}));
            v.push(json!({"e":"advance","d":cap}));
            v.push(json!({"e":"poll","c":1}));
        }
        Some(v)
    }
    fn teardown(&mut self) {
        self.svc = None;
    }
}
