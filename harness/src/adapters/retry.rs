//! Adapter: tower-resilience-retry (C05)
use crate::drive::*;
use crate::sim::*;
use serde_json::{json, Value};
use std::sync::Arc;
use std::time::Duration;
use tower::{Layer, Service};
use tower_resilience_retry::{AimdBudget, ExponentialBackoff, ExponentialRandomBackoff, FixedInterval, RetryBudget, RetryLayer, TokenBucketBudget};

type Svc = <RetryLayer<Req, IErr> as Layer<Inner>>::Service;
pub struct RetryAd {
    svc: Option<Handles<Svc>>,
}
impl RetryAd {
    pub fn new() -> Self {
        RetryAd { svc: None }
    }
}
impl Adapter for RetryAd {
    fn name(&self) -> &'static str {
        "retry"
    }
    fn gen_cfg(&mut self, rng: &mut Rng, _size: Size) -> Value {
        let bo = *rng.pick(&["fixed", "exp", "exp", "rand"]);
        let aimd = rng.pct(30);
        let bmax = 2 + rng.below(3) as i64;
        json!({"hm": rng.below(4), "max": rng.below(5), "perReq": if rng.pct(30) { 1 } else { 0 }, "pred": *rng.pick(&["all", "noe2"]), "bo": bo,
               "b0": if bo == "rand" { 2 + 2 * rng.below(2) } else { 1 + rng.below(3) }, "cap": 4 + rng.below(5),
               "budget": if aimd { bmax } else { *rng.pick(&[-1i64, -1, 0, 1, 2, 3]) }, "bmax": if aimd { bmax } else { 3 },
               "btype": if aimd { "aimd" } else { "tb" }, "bmin": 1, "cost": 1 + rng.below(2), "amount": 1 + rng.below(2), "fnum": *rng.pick(&[0u64, 2, 3, 4])})
    }
    fn build(&mut self, cfg: &Value, sim: &mut Sim) {
        let u = |k: &str| cfg[k].as_u64().unwrap();
        let mut b = RetryLayer::<Req, IErr>::builder();
        if u("perReq") == 1 {
            b = b.max_attempts_fn(|r: &Req| (r.key as usize).saturating_sub(1));
        } else {
            b = b.max_attempts(u("max") as usize);
        }
        if cfg["pred"] == "noe2" {
            b = b.retry_on(|e: &IErr| e.code != 2);
        }
        if cfg["bo"] == "fixed" {
            b = b.backoff(FixedInterval::new(Duration::from_millis(u("b0"))));
        } else if cfg["bo"] == "rand" {
            b = b.backoff(ExponentialRandomBackoff::new(Duration::from_millis(u("b0")), 0.5).max_interval(Duration::from_millis(u("cap"))));
        } else {
            b = b.backoff(ExponentialBackoff::new(Duration::from_millis(u("b0"))).max_interval(Duration::from_millis(u("cap"))));
        }
        let mut bud: Option<Arc<dyn RetryBudget>> = None;
        if cfg["budget"].as_i64().unwrap() >= 0 {
            let x: Arc<dyn RetryBudget> = if cfg["btype"] == "aimd" {
                Arc::new(AimdBudget::new(u("bmin") as usize, u("bmax") as usize, u("amount") as usize, u("cost") as usize, u("fnum") as f64 / 4.0))
            } else {
                Arc::new(TokenBucketBudget::new(0.0, u("bmax") as usize, cfg["budget"].as_u64().unwrap() as usize))
            };
            b = b.budget(x.clone());
            bud = Some(x);
        }
        self.svc = Some(Handles::new(b.build().layer(Inner::new(&sim.w)), cfg["hm"].as_u64().unwrap_or(0)));
        if let Some(x) = bud {
            sim.obs = Some(Box::new(move || {
                let mut m = Obj::new();
                m.insert("bal".into(), json!(x.balance()));
                m
            }));
        }
    }
    fn mk(&mut self, req: &Req) -> CallFut {
        let f = self.svc.as_mut().unwrap().with(|s| {
            ready_unless_parked(s);
            s.call(req.clone())
        });
        Box::pin(async move {
            match f.await {
                Ok(r) => Out::Ok { val: r.serial, req: r.req },
                Err(e) => Out::Err { kind: format!("inner{}", e.code), val: e.serial as i64 },
            }
        })
    }
    fn params(&self, _cfg: &Value, size: Size, rng: &mut Rng) -> DriveParams {
        let mut p = DriveParams::default();
        p.n = if size == Size::Quick { 2 + rng.below(4) } else { 3 + rng.below(6) };
        p.keys = 5;
        p.steps = if size == Size::Quick { 90 } else { 250 };
        p.horizon = 80;
        p.outs = vec![(GOut::Ok, 3), (GOut::Err(1), 7), (GOut::Err(2), 1)];
        p.w_drop = 1;
        p.w_create = 3;
        p.max_adv = 3;
        p
    }
    fn teardown(&mut self) {
        self.svc = None;
    }
}
