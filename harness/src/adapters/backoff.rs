//! Sequential scenarios for C14: backoff delay tables and long retry / reconnect loops.
use crate::drive::Size;
use crate::sim::{IErr, Req, Resp, Rng};
use serde_json::{json, Value};
use std::panic::{catch_unwind, AssertUnwindSafe};
use std::time::Duration;
use tower::{Layer, Service, ServiceExt};
use tower_resilience_reconnect::{ReconnectConfig, ReconnectLayer, ReconnectPolicy};
use tower_resilience_retry::{ExponentialBackoff, ExponentialRandomBackoff, FixedInterval, IntervalFunction, RetryLayer};

const BIG: u128 = 100_000_000;
fn units(d: Duration, unit: u64) -> u64 {
    // rounded to the nearest unit, saturated at BIG
    let n = d.as_nanos();
    let u = unit as u128 * 1_000_000;
    let v = (n + u / 2) / u;
    v.min(BIG) as u64
}
fn dur(x: u64, unit: u64) -> Duration {
    Duration::from_millis(x.saturating_mul(unit))
}
/// what the configuration builds: a function attempt -> Option<delay>
fn build(cfg: &Value) -> Box<dyn Fn(usize) -> Option<Duration>> {
    let u = |k: &str| cfg[k].as_u64().unwrap();
    let unit = u("unit");
    let ini = dur(u("ini"), unit);
    let m = u("mnum") as f64 / u("mden") as f64;
    let cap = if u("cap") == 0 { None } else { Some(dur(u("cap"), unit)) };
    let f = u("f2") as f64 / 2.0;
    match cfg["src"].as_str().unwrap() {
        // ord = 1: the cap is given before the multiplier (builder call order must not matter)
        "exp" => {
            let ord = cfg["ord"].as_u64().unwrap_or(0) == 1;
            let mut b = ExponentialBackoff::new(ini);
            b = match (cap, ord) {
                (Some(c), true) => b.max_interval(c).multiplier(m),
                (Some(c), false) => b.multiplier(m).max_interval(c),
                (None, _) => b.multiplier(m),
            };
            Box::new(move |a| Some(b.next_interval(a)))
        }
        "rand" => {
            let ord = cfg["ord"].as_u64().unwrap_or(0) == 1;
            let mut b = ExponentialRandomBackoff::new(ini, f);
            b = match (cap, ord) {
                (Some(c), true) => b.max_interval(c).multiplier(m),
                (Some(c), false) => b.multiplier(m).max_interval(c),
                (None, _) => b.multiplier(m),
            };
            Box::new(move |a| Some(b.next_interval(a)))
        }
        "fixed" => {
            let b = FixedInterval::new(ini);
            Box::new(move |a| Some(b.next_interval(a)))
        }
        "rc_exp" => {
            let p = ReconnectPolicy::exponential(ini, cap.unwrap());
            Box::new(move |a| p.delay_for_attempt(a))
        }
        "rc_rand" => {
            let p = ReconnectPolicy::exponential_random(ini, cap.unwrap(), f);
            Box::new(move |a| p.delay_for_attempt(a))
        }
        "rc_fixed" => {
            let p = ReconnectPolicy::fixed(ini);
            Box::new(move |a| p.delay_for_attempt(a))
        }
        "rc_default" => {
            let p = ReconnectPolicy::default();
            Box::new(move |a| p.delay_for_attempt(a))
        }
        _ => {
            let p = ReconnectPolicy::none();
            Box::new(move |a| p.delay_for_attempt(a))
        }
    }
}
fn table(cfg: &Value, dense: usize, far: &[usize], out: &mut Vec<String>) -> usize {
    let unit = cfg["unit"].as_u64().unwrap();
    out.push(json!({"e":"reset","comp":"backoff","cfg":cfg}).to_string());
    let mut n = 1;
    let f = match catch_unwind(AssertUnwindSafe(|| build(cfg))) {
        Ok(f) => f,
        Err(_) => {
            out.push(json!({"e":"panic","a":-1}).to_string());
            return 2;
        }
    };
    for a in 0..dense {
        match catch_unwind(AssertUnwindSafe(|| f(a))) {
            Ok(Some(d)) => out.push(json!({"e":"delay","a":a,"d":units(d, unit),"far":false}).to_string()),
            Ok(None) => out.push(json!({"e":"nodelay","a":a}).to_string()),
            Err(_) => {
                out.push(json!({"e":"panic","a":a}).to_string());
                return n + 1;
            }
        }
        n += 1;
    }
    for &a in far {
        match catch_unwind(AssertUnwindSafe(|| f(a))) {
            Ok(Some(d)) => out.push(json!({"e":"delay","ax":a.to_string(),"d":units(d, unit),"far":true}).to_string()),
            Ok(None) => out.push(json!({"e":"nodelay","ax":a.to_string()}).to_string()),
            Err(_) => {
                out.push(json!({"e":"panic","ax":a.to_string()}).to_string());
                return n + 1;
            }
        }
        n += 1;
    }
    // the same object again from attempt 0: a backoff is shared by every request of its layer
    out.push(json!({"e":"rewind"}).to_string());
    n += 1;
    for a in 0..dense.min(8) {
        match catch_unwind(AssertUnwindSafe(|| f(a))) {
            Ok(Some(d)) => out.push(json!({"e":"delay","a":a,"d":units(d, unit),"far":false}).to_string()),
            Ok(None) => out.push(json!({"e":"nodelay","a":a}).to_string()),
            Err(_) => {
                out.push(json!({"e":"panic","a":a}).to_string());
                return n + 1;
            }
        }
        n += 1;
    }
    n
}
#[derive(Clone)]
struct Dead;
impl Service<Req> for Dead {
    type Response = Resp;
    type Error = IErr;
    type Future = std::future::Ready<Result<Resp, IErr>>;
    fn poll_ready(&mut self, _: &mut std::task::Context<'_>) -> std::task::Poll<Result<(), IErr>> {
        std::task::Poll::Ready(Ok(()))
    }
    fn call(&mut self, _r: Req) -> Self::Future {
        CALLS.with(|c| c.set(c.get() + 1));
        std::future::ready(Err(IErr { code: 1, serial: 0 }))
    }
}
thread_local! { static CALLS: std::cell::Cell<u64> = const { std::cell::Cell::new(0) }; }

/// a retry / reconnect loop against a dead backend over hours of virtual time
fn loops(size: Size, out: &mut Vec<String>) -> usize {
    let n_rc: u64 = if size == Size::Quick { 200 } else { 3000 };
    let n_rt: u64 = if size == Size::Quick { 300 } else { 10000 };
    let rt = tokio::runtime::Builder::new_current_thread().enable_time().start_paused(true).build().unwrap();
    let mut n = 0;
    for (src, max) in [("loop_reconnect", n_rc), ("loop_retry", n_rt)] {
        // cfg.ini carries the number of inner calls the loop must make
        let calls_expected = if src == "loop_reconnect" { max + 1 } else { max };
        out.push(json!({"e":"reset","comp":"backoff","cfg":{"src":src,"kind":"loop","ini":calls_expected,"mnum":2,"mden":1,"cap":0,"f2":0,"unit":1}}).to_string());
        CALLS.with(|c| c.set(0));
        let res = catch_unwind(AssertUnwindSafe(|| {
            rt.block_on(async {
                if src == "loop_reconnect" {
                    let cfg = ReconnectConfig::builder().max_attempts(max as u32).build();
                    let svc = ReconnectLayer::new(cfg).layer(Dead);
                    svc.oneshot(Req { id: 1, key: 1 }).await.is_err()
                } else {
                    let layer = RetryLayer::<Req, IErr>::builder()
                        .max_attempts(max as usize)
                        .backoff(ExponentialBackoff::new(Duration::from_millis(100)).max_interval(Duration::from_secs(5)))
                        .build();
                    let svc = layer.layer(Dead);
                    svc.oneshot(Req { id: 1, key: 1 }).await.is_err()
                }
            })
        }));
        let calls = CALLS.with(|c| c.get());
        match res {
            Ok(true) => out.push(json!({"e":"loop","calls":calls,"res":"err"}).to_string()),
            Ok(false) => out.push(json!({"e":"loop","calls":calls,"res":"ok"}).to_string()),
            Err(_) => out.push(json!({"e":"panic","calls":calls}).to_string()),
        }
        n += 2;
    }
    n
}
pub fn run_backoff(seed: u64, size: Size, out: &mut Vec<String>) -> (usize, usize) {
    let mut rng = Rng::new(seed ^ 0xbac0);
    let dense = if size == Size::Quick { 200 } else { 10000 };
    let mut far: Vec<usize> = vec![10_000, 65_535, 65_536, 1 << 20];
    for k in [31usize, 32, 33, 47, 62, 63] {
        far.push((1usize << k) - 1);
        far.push(1usize << k);
        far.push((1usize << k) + 1);
    }
    far.push(usize::MAX - 1);
    far.push(usize::MAX);
    far.sort();
    let mut cfgs: Vec<Value> = vec![];
    // the grid of DESIGN.md: initial in {0, 1, 100, a day}, m in {1, 3/2, 2, 10}, cap in {absent, below initial, 5000, two years}
    for (unit, inis) in [(1u64, vec![0u64, 1, 100]), (1000, vec![1, 86_400])] {
        for ini in inis {
            for (mn, md) in [(1u64, 1u64), (3, 2), (2, 1), (10, 1)] {
                for cap in [0u64, 50, 5000, 63_072_000] {
                    if unit == 1 && cap == 63_072_000 {
                        continue;
                    }
                    cfgs.push(json!({"src":"exp","kind":"exp","ini":ini,"mnum":mn,"mden":md,"cap":cap,"f2":0,"unit":unit}));
                    if cap != 0 {
                        cfgs.push(json!({"src":"exp","kind":"exp","ini":ini,"mnum":mn,"mden":md,"cap":cap,"f2":0,"unit":unit,"ord":1}));
                    }
                    if md == 1 {
                        for f2 in [0u64, 1, 2] {
                            cfgs.push(json!({"src":"rand","kind":"exp","ini":ini,"mnum":mn,"mden":md,"cap":cap,"f2":f2,"unit":unit,"ord": (f2 + mn) % 2}));
                        }
                        if mn == 2 && cap != 0 {
                            cfgs.push(json!({"src":"rc_exp","kind":"exp","ini":ini,"mnum":2,"mden":1,"cap":cap,"f2":0,"unit":unit}));
                            cfgs.push(json!({"src":"rc_rand","kind":"exp","ini":ini,"mnum":2,"mden":1,"cap":cap,"f2":1,"unit":unit}));
                        }
                    }
                }
            }
            cfgs.push(json!({"src":"fixed","kind":"fixed","ini":ini,"mnum":1,"mden":1,"cap":0,"f2":0,"unit":unit}));
            cfgs.push(json!({"src":"rc_fixed","kind":"fixed","ini":ini,"mnum":1,"mden":1,"cap":0,"f2":0,"unit":unit}));
        }
    }
    cfgs.push(json!({"src":"rc_default","kind":"exp","ini":100,"mnum":2,"mden":1,"cap":5000,"f2":0,"unit":1}));
    cfgs.push(json!({"src":"rc_none","kind":"none","ini":0,"mnum":1,"mden":1,"cap":0,"f2":0,"unit":1}));
    // seeded random configurations
    let extra = if size == Size::Quick { 40 } else { 600 };
    for _ in 0..extra {
        let unit = *rng.pick(&[1u64, 1000]);
        let ini = *rng.pick(&[0u64, 1, 2, 7, 100, 999, 86_400, 250_000]);
        let (mn, md) = *rng.pick(&[(1u64, 1u64), (3, 2), (2, 1), (3, 1), (5, 1), (10, 1)]);
        let cap = *rng.pick(&[0u64, 1, 50, 5000, 99_999, 63_072_000]);
        let rand = md == 1 && rng.pct(40);
        cfgs.push(json!({"src": if rand {"rand"} else {"exp"},"kind":"exp","ini":ini,"mnum":mn,"mden":md,"cap":cap,"f2": if rand { rng.below(3) as u64 } else { 0 },"unit":unit,"ord":rng.below(2)}));
    }
    let mut ev = 0;
    for c in &cfgs {
        ev += table(c, dense, &far, out);
    }
    ev += loops(size, out);
    (cfgs.len() + 2, ev)
}

/// replay: recompute the table (or the loop) of every configuration named by a reset line
pub fn replay(input: &str, out: &mut Vec<String>) -> (usize, usize) {
    let mut far: Vec<usize> = vec![];
    let (mut nr, mut ne) = (0, 0);
    let lines: Vec<Value> = input.lines().filter_map(|l| serde_json::from_str(l.trim()).ok()).collect();
    let mut i = 0;
    while i < lines.len() {
        if lines[i]["e"] == "reset" {
            let cfg = lines[i]["cfg"].clone();
            let mut j = i + 1;
            let mut dense = 0;
            far.clear();
            let mut rewound = false;
            while j < lines.len() && lines[j]["e"] != "reset" {
                if lines[j]["e"] == "rewind" {
                    rewound = true;
                }
                if rewound {
                    j += 1;
                    continue;
                }
                if let Some(ax) = lines[j]["ax"].as_str() {
                    far.push(ax.parse().unwrap_or(0));
                } else if lines[j].get("a").is_some() {
                    dense += 1;
                }
                j += 1;
            }
            if cfg["kind"] == "loop" {
                ne += loops(Size::Quick, out);
            } else {
                ne += table(&cfg, dense, &far, out);
            }
            nr += 1;
            i = j;
        } else {
            i += 1;
        }
    }
    (nr, ne)
}
