//! Adapter: tower-resilience-bulkhead (C01, C07)
use crate::drive::*;
use crate::sim::*;
use serde_json::{json, Value};
use std::sync::atomic::{AtomicUsize, Ordering};
use std::sync::Arc;
use std::time::Duration;
use tower::{Layer, Service};
use tower_resilience_bulkhead::{Bulkhead, BulkheadError, BulkheadLayer, BulkheadServiceError};

#[derive(Default)]
pub struct Counters {
    permitted: AtomicUsize,
    rejected: AtomicUsize,
    finished: AtomicUsize,
    failed: AtomicUsize,
    last_cc: AtomicUsize,
}

pub struct BulkheadAd {
    svc: Option<Handles<Bulkhead<Inner>>>,
    cnt: Arc<Counters>,
    sib: Vec<Sibling>,
    variant: String,
}
impl BulkheadAd {
    pub fn new(variant: &str) -> Self {
        BulkheadAd { svc: None, cnt: Arc::new(Counters::default()), sib: vec![], variant: variant.into() }
    }
}
fn map_res(r: Result<Resp, BulkheadServiceError<IErr>>) -> Out {
    match r {
        Ok(r) => Out::Ok { val: r.serial, req: r.req },
        Err(BulkheadServiceError::Inner(e)) => Out::Err { kind: format!("inner{}", e.code), val: e.serial as i64 },
        Err(BulkheadServiceError::Bulkhead(BulkheadError::Timeout)) => Out::Err { kind: "timeout".into(), val: -1 },
        Err(BulkheadServiceError::Bulkhead(BulkheadError::BulkheadFull { .. })) => Out::Err { kind: "full".into(), val: -1 },
    }
}
impl Adapter for BulkheadAd {
    fn name(&self) -> &'static str {
        "bulkhead"
    }
    fn gen_cfg(&mut self, rng: &mut Rng, size: Size) -> Value {
        let maxes: &[u64] = if size == Size::Quick { &[1, 2, 3] } else { &[1, 2, 3, 4] };
        let waits: &[i64] = &[-1, 0, 0, 1, 2, 3, 5];
        if rng.pct(6) {
            // the `small` preset exactly as shipped: 10 concurrent calls, reject when full
            return json!({"hm": rng.below(4), "max": 10, "wait": 0, "ctor": 2});
        }
        // 1000000 stands for Duration::MAX: a wait that never runs out (and whose deadline cannot be computed by adding)
        let wait = if rng.pct(6) { 1000000 } else { *rng.pick(waits) };
        // ctor 3: a preset customised afterwards (needs an explicit wait); pre: overridden earlier settings
        let ctor = if wait >= 0 && rng.pct(20) { 3 } else { rng.below(2) };
        let pre = if wait >= 0 { rng.below(3) } else { 0 };
        // lazy (variant "lazy", C01 only): the executor may let time pass although somebody is runnable
        let lazy = if self.variant == "lazy" { 1 } else { 0 };
        // rt (some late-polling runs): virtual time is coupled to the wall clock, which the crate reads too
        let rt = if lazy == 1 && rng.pct(12) { 1 } else { 0 };
        // rdy = 1: the wrapped service's poll_ready fails now and then (a scripted sequence); the caller polls again until
        // it is ready, as the contract demands, so only readiness polls the bulkhead makes of its own meet a failure
        let rdy = if rng.pct(35) { 1 + rng.below(1000) } else { 0 };
        json!({"rt": rt, "hm": rng.below(4), "max": *rng.pick(maxes), "wait": wait, "ctor": ctor, "ord": rng.below(6), "pre": pre, "sib": rng.below(2), "lazy": lazy, "rdy": rdy})
    }
    fn build(&mut self, cfg: &Value, sim: &mut Sim) {
        let max = cfg["max"].as_u64().unwrap() as usize;
        let wait = cfg["wait"].as_i64().unwrap();
        sim.real_sleep = cfg["rt"].as_u64().unwrap_or(0) == 1;
        let rdy = cfg["rdy"].as_u64().unwrap_or(0);
        if rdy > 0 {
            let mut r = Rng::new(rdy);
            let mut w = sim.w.lock().unwrap();
            w.track_inst = true;
            w.ready_script = (0..60).map(|_| if r.pct(30) { ReadyAns::Err(3) } else { ReadyAns::Ready }).collect();
        }
        let cnt = Arc::new(Counters::default());
        self.cnt = cnt.clone();
        let (c1, c2, c3, c4) = (cnt.clone(), cnt.clone(), cnt.clone(), cnt.clone());
        let ctor = cfg["ctor"].as_u64().unwrap_or(0);
        let preset = ctor == 2;
        // the options are applied in an order chosen by cfg.ord, with overridden earlier settings when
        // cfg.pre > 0: a builder's later setting wins, whatever was set before and in whatever order
        let ord = cfg["ord"].as_u64().unwrap_or(0);
        let pre = cfg["pre"].as_u64().unwrap_or(0);
        let mut b = if preset || ctor == 3 { BulkheadLayer::small() } else { BulkheadLayer::builder() };
        if pre == 1 && !preset {
            b = b.reject_when_full().max_concurrent_calls(99);
        } else if pre == 2 && !preset {
            b = b.max_wait_duration(Duration::from_millis(77)).max_concurrent_calls(max + 1).name("early");
        }
        let steps: [[u8; 3]; 6] = [[0, 1, 2], [0, 2, 1], [1, 0, 2], [1, 2, 0], [2, 0, 1], [2, 1, 0]];
        let mut lis = Some((c1, c2, c3, c4));
        for st in steps[(ord % 6) as usize] {
            match st {
                0 => {
                    if !preset {
                        b = b.max_concurrent_calls(max);
                    }
                }
                1 => {
                    if preset {
                        // nothing: the preset's own settings
                    } else if wait == 0 && ctor == 1 {
                        b = b.reject_when_full();
                    } else if wait >= 1000000 {
                        b = b.max_wait_duration(Duration::MAX);
                    } else if wait >= 0 {
                        b = b.max_wait_duration(Duration::from_millis(wait as u64));
                    }
                }
                _ => {
                    let (c1, c2, c3, c4) = lis.take().unwrap();
                    b = b
                        .on_call_permitted(move |cc| {
                            c1.permitted.fetch_add(1, Ordering::SeqCst);
                            c1.last_cc.store(cc, Ordering::SeqCst);
                        })
                        .on_call_rejected(move |_| {
                            c2.rejected.fetch_add(1, Ordering::SeqCst);
                        })
                        .on_call_finished(move |_| {
                            c3.finished.fetch_add(1, Ordering::SeqCst);
                        })
                        .on_call_failed(move |_| {
                            c4.failed.fetch_add(1, Ordering::SeqCst);
                        });
                }
            }
        }
        let layer = b.build();
        // cfg.sib = 1: two more bulkheads are built from the same layer value, one before (saturated with calls that
        // never finish, one more queued) and one after the bulkhead under test: they share nothing with it
        self.sib.clear();
        let sib = cfg["sib"].as_u64().unwrap_or(0) == 1;
        if sib {
            let w2 = sibling_world();
            self.sib.push(sibling_traffic(layer.layer(Inner::new(&w2)), w2, max + 3));
        }
        self.svc = Some(Handles::new(layer.layer(Inner::new(&sim.w)), cfg["hm"].as_u64().unwrap_or(0)));
        if sib {
            let w3 = sibling_world();
            self.sib.push(sibling_traffic(layer.layer(Inner::new(&w3)), w3, 1));
        }
        let cnt2 = cnt.clone();
        sim.obs = Some(Box::new(move || {
            let mut m = Obj::new();
            m.insert(
                "lis".into(),
                json!({"perm": cnt2.permitted.load(Ordering::SeqCst), "rej": cnt2.rejected.load(Ordering::SeqCst),
                       "fin": cnt2.finished.load(Ordering::SeqCst), "fail": cnt2.failed.load(Ordering::SeqCst),
                       "cc": cnt2.last_cc.load(Ordering::SeqCst)}),
            );
            m
        }));
    }
    fn mk(&mut self, req: &Req) -> CallFut {
        // every caller uses its own clone of the one bulkhead
        let f = self.svc.as_mut().unwrap().with(|s| {
            ready_until_ok(s);
            s.call(req.clone())
        });
        Box::pin(async move { map_res(f.await) })
    }
    fn params(&self, cfg: &Value, size: Size, rng: &mut Rng) -> DriveParams {
        let max = cfg["max"].as_u64().unwrap() as usize;
        let mut p = DriveParams::default();
        p.n = (if size == Size::Quick { max + 2 + rng.below(3) } else { max + 2 + rng.below(8) }).min(20);
        p.steps = if size == Size::Quick { 50 } else { 200 };
        p.horizon = if size == Size::Quick { 30 } else { 120 };
        p.w_drop = 1 + rng.below(2) as u32;
        p.lazy = cfg["lazy"].as_u64().unwrap_or(0) == 1;
        if p.lazy {
            p.w_adv = 6;
            p.max_adv = 3;
        }
        p
    }
    fn finale(&self, cfg: &Value) -> Vec<Value> {
        // probes: after everything is gone, exactly `max` fresh callers are admitted at once
        let max = cfg["max"].as_u64().unwrap();
        let mut v = vec![json!({"e":"settle"}), json!({"e":"dropall"})];
        for k in 0..=max {
            v.push(json!({"e":"create","c":101 + k}));
            v.push(json!({"e":"poll","c":101 + k}));
        }
        v.push(json!({"e":"dropall"}));
        v
    }
    fn teardown(&mut self) {
        self.svc = None;
        self.sib.clear();
    }
}
