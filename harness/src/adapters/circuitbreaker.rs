//! Adapter: tower-resilience-circuitbreaker (C03, C04, C09)
use crate::drive::*;
use crate::sim::*;
use futures::future::BoxFuture;
use futures::FutureExt;
use serde_json::{json, Value};
use std::time::Duration;
use tower::Service;
use tower_resilience_circuitbreaker::classifier::FailureClassifier;
use tower_resilience_circuitbreaker::{
    CircuitBreaker, CircuitBreakerError, CircuitBreakerLayer, CircuitBreakerWithFallback, CircuitState, SlidingWindowType,
};

fn st_name(s: CircuitState) -> &'static str {
    match s {
        CircuitState::Closed => "closed",
        CircuitState::Open => "open",
        CircuitState::HalfOpen => "half",
    }
}
fn map_res(r: Result<Resp, CircuitBreakerError<IErr>>) -> Out {
    match r {
        Ok(r) => Out::Ok { val: r.serial, req: r.req },
        Err(CircuitBreakerError::OpenCircuit) => Out::Err { kind: "open".into(), val: -1 },
        Err(CircuitBreakerError::Inner(e)) => Out::Err { kind: format!("inner{}", e.code), val: e.serial as i64 },
    }
}
fn ready<T>(f: impl std::future::Future<Output = T>) -> T {
    // the breaker lock is never held across an await point, so it is free between polls
    f.now_or_never().expect("circuit lock contended between polls")
}
trait Handle {
    fn mk(&mut self, req: &Req) -> CallFut;
    /// poll_ready only (the handle is parked afterwards)
    fn ready(&mut self);
    /// Service::call on this very handle (driven to readiness earlier)
    fn call_now(&mut self, req: &Req) -> CallFut;
    fn op(&self, name: &str);
    fn obs(&self) -> Obj;
    fn boxed(&self) -> Box<dyn Handle>;
}
macro_rules! handle_impl {
    () => {
        fn mk(&mut self, req: &Req) -> CallFut {
            let mut s = self.clone();
            let w = futures::task::noop_waker();
            let mut cx = std::task::Context::from_waker(&w);
            let _ = s.poll_ready(&mut cx);
            let f = s.call(req.clone());
            Box::pin(async move { map_res(f.await) })
        }
        fn ready(&mut self) {
            let w = futures::task::noop_waker();
            let mut cx = std::task::Context::from_waker(&w);
            let _ = self.poll_ready(&mut cx);
        }
        fn call_now(&mut self, req: &Req) -> CallFut {
            let f = self.call(req.clone());
            Box::pin(async move { map_res(f.await) })
        }
        fn op(&self, name: &str) {
            match name {
                "force_open" => ready(self.force_open()),
                "force_closed" => ready(self.force_closed()),
                "reset" => ready(self.reset()),
                _ => {}
            }
        }
        fn obs(&self) -> Obj {
            let m = ready(self.metrics());
            let mut o = Obj::new();
            o.insert("sync".into(), json!(st_name(self.state_sync())));
            o.insert("ast".into(), json!(st_name(ready(self.state()))));
            o.insert("mst".into(), json!(st_name(m.state)));
            o.insert("isopen".into(), json!(self.is_open()));
            o.insert("mt".into(), json!(m.total_calls));
            o.insert("mf".into(), json!(m.failure_count));
            o.insert("msl".into(), json!(m.slow_call_count));
            o
        }
        fn boxed(&self) -> Box<dyn Handle> {
            Box::new(self.clone())
        }
    };
}
impl<C> Handle for CircuitBreaker<Inner, C>
where
    C: FailureClassifier<Resp, IErr> + Send + Sync + 'static,
{
    handle_impl!();
}
impl<C> Handle for CircuitBreakerWithFallback<Inner, C, Req, Resp, IErr>
where
    C: FailureClassifier<Resp, IErr> + Send + Sync + 'static,
{
    handle_impl!();
}

pub struct CbAd {
    h: Option<Box<dyn Handle>>,
    /// a clone taken before with_fallback / at build time: manual operations and state views go through it
    ctl: Option<Box<dyn Handle>>,
    /// hm = 2: handles driven to readiness long ago (the oldest at build time); every third request uses the oldest
    parked: std::collections::VecDeque<Box<dyn Handle>>,
    nmk: u64,
    sib: Vec<Sibling>,
    hm: u64,
    nops: u64,
    variant: String,
}
impl CbAd {
    pub fn new(variant: &str) -> Self {
        CbAd { h: None, ctl: None, parked: Default::default(), nmk: 0, sib: vec![], hm: 0, nops: 0, variant: if variant.is_empty() { "conc".into() } else { variant.into() } }
    }
}
fn q(x: u64) -> f64 {
    x as f64 / 4.0
}
impl Adapter for CbAd {
    fn name(&self) -> &'static str {
        "circuitbreaker"
    }
    fn gen_cfg(&mut self, rng: &mut Rng, size: Size) -> Value {
        let seq = self.variant == "seq";
        let storm = self.variant == "storm";
        let wt = *rng.pick(&["count", "time"]);
        let n = if seq { *rng.pick(if size == Size::Quick { &[2u64, 3, 4][..] } else { &[2u64, 3, 4, 10, 100][..] }) } else { 2 + rng.below(2) as u64 };
        let min = *rng.pick(&[1, n, n + 1, (n / 2).max(1)]);
        json!({
            "wt": wt, "N": n, "min": min, "thr": *rng.pick(&[0u64, 1, 2, 3, 4, 2, 2]), "perm": if storm { 1 + rng.below(2) } else { 1 + rng.below(3) },
            "slowOn": rng.below(2), "slowThr": 2 + rng.below(2), "slowRate": *rng.pick(&[1u64, 2, 4, 0]), "srOff": rng.below(2),
            "D": *rng.pick(&[2u64, 4, 7]), "wait": if storm { 1 + rng.below(2) as u64 } else if rng.pct(4) { 1000000 } else { *rng.pick(&[1u64, 2, 3, 5]) }, "cls": *rng.pick(&["default", "e2ok"]),
            "fb": if seq { 0 } else { rng.below(2) },
            // lazy: the executor may let time pass before a runnable caller is polled (seq: late first polls of one
            // call at a time; lazyc: concurrent callers created in one state and first polled in another)
            "lazy": if (seq && rng.pct(40)) || self.variant == "lazyc" { 1 } else { 0 },
            "ctor": rng.below(2),
            "ord": rng.below(2),
            "hm": rng.below(3),
            "sib": rng.below(2),
            "base": if rng.pct(40) { 1 + rng.below(3) } else { 0 },
            // sc (some sequential runs with slow-call detection): the wrapped service takes sc ms inside Service::call
            "sc": if seq && rng.pct(25) { 1 + rng.below(3) as u64 } else { 0 },
        })
    }
    fn build(&mut self, cfg: &Value, sim: &mut Sim) {
        let u = |k: &str| cfg[k].as_u64().unwrap();
        // the same options applied to a builder of any classifier type (the typestate builder is
        // rebuilt by failure_classifier(): options given before and after it must both survive)
        macro_rules! opts {
            ($b:expr) => {{
                let mut b = $b
                    .failure_rate_threshold(q(u("thr")))
                    .sliding_window_type(if cfg["wt"] == "count" { SlidingWindowType::CountBased } else { SlidingWindowType::TimeBased })
                    .sliding_window_size(u("N") as usize)
                    .sliding_window_duration(Duration::from_millis(u("D")))
                    .wait_duration_in_open(if u("wait") >= 1000000 { Duration::MAX } else { Duration::from_millis(u("wait")) })
                    .permitted_calls_in_half_open(u("perm") as usize)
                    .minimum_number_of_calls(u("min") as usize);
                if u("slowOn") == 1 {
                    b = b.slow_call_duration_threshold(Duration::from_millis(u("slowThr"))).slow_call_rate_threshold(q(u("slowRate")));
                } else if cfg["srOff"].as_u64().unwrap_or(0) == 1 {
                    // a slow-call RATE threshold (also 0) without a slow-call duration threshold: detection stays off
                    b = b.slow_call_rate_threshold(q(u("slowRate")));
                }
                b
            }};
        }
        sim.w.lock().unwrap().call_delay = cfg["sc"].as_u64().unwrap_or(0);
        let classifier_first = cfg["ord"].as_u64().unwrap_or(0) == 1;
        let inner = Inner::new(&sim.w);
        let fb = u("fb") == 1;
        let fallback = |r: Req| -> BoxFuture<'static, Result<Resp, IErr>> { Box::pin(async move { Ok(Resp { serial: 9000 + r.id as u64, req: r.id }) }) };
        use tower::Layer;
        let via_layer = cfg["ctor"].as_u64().unwrap_or(0) == 1;
        // cfg.sib = 1: a second breaker built from the same layer value sees eight failures (and trips) first
        self.sib.clear();
        let sib = cfg["sib"].as_u64().unwrap_or(0) == 1;
        let ctl: Box<dyn Handle>;
        let h: Box<dyn Handle> = if cfg["cls"] == "default" {
            // cfg.base: start from a preset; every setting of it is overridden by opts!
            let b = match cfg["base"].as_u64().unwrap_or(0) {
                1 => opts!(CircuitBreakerLayer::standard()),
                2 => opts!(CircuitBreakerLayer::fast_fail()),
                3 => opts!(CircuitBreakerLayer::tolerant()),
                _ => opts!(CircuitBreakerLayer::builder()),
            };
            let layer = b.build();
            if sib {
                let w2 = sibling_world();
                w2.lock().unwrap().immediate = vec![GOut::Err(1); 8];
                self.sib.push(sibling_traffic(layer.layer(Inner::new(&w2)), w2, 10));
            }
            let svc = if via_layer { layer.layer(inner) } else { layer.layer_fn(inner) };
            ctl = svc.boxed();
            if fb {
                Box::new(svc.with_fallback(fallback))
            } else {
                Box::new(svc)
            }
        } else {
            let cls = |r: &Result<Resp, IErr>| matches!(r, Err(e) if e.code != 2);
            let l = if classifier_first {
                opts!(CircuitBreakerLayer::builder().failure_classifier(cls)).build()
            } else {
                opts!(CircuitBreakerLayer::builder()).failure_classifier(cls).build()
            };
            if sib {
                let w2 = sibling_world();
                w2.lock().unwrap().immediate = vec![GOut::Err(1); 8];
                self.sib.push(sibling_traffic(l.layer(Inner::new(&w2)), w2, 10));
            }
            let svc = if via_layer { l.layer(inner) } else { l.layer_fn(inner) };
            ctl = svc.boxed();
            if fb {
                Box::new(svc.with_fallback(fallback))
            } else {
                Box::new(svc)
            }
        };
        // every handle of one breaker shares its state: the views are read through the clone taken
        // before the fallback was attached, manual operations alternate between the two
        let h2 = ctl.boxed();
        self.hm = cfg["hm"].as_u64().unwrap_or(0);
        self.nops = 0;
        self.nmk = 0;
        self.parked.clear();
        for _ in 0..3 {
            let mut p = h.boxed();
            p.ready();
            self.parked.push_back(p);
        }
        self.h = Some(h);
        self.ctl = Some(ctl);
        sim.obs = Some(Box::new(move || h2.obs()));
    }
    fn mk(&mut self, req: &Req) -> CallFut {
        match self.hm {
            1 => {
                // one long-lived handle: poll_ready and call on it for every request
                let h = self.h.as_mut().unwrap();
                h.ready();
                h.call_now(req)
            }
            2 => {
                // Tower allows any delay between readiness and the call: every third request uses the handle
                // that has been ready (and parked) the longest
                self.nmk += 1;
                if self.nmk % 3 == 0 {
                    let mut p = self.parked.pop_front().unwrap();
                    let f = p.call_now(req);
                    let mut next = self.h.as_ref().unwrap().boxed();
                    next.ready();
                    self.parked.push_back(next);
                    f
                } else {
                    self.h.as_mut().unwrap().mk(req)
                }
            }
            _ => self.h.as_mut().unwrap().mk(req),
        }
    }
    fn op(&mut self, name: &str, _ev: &Value, _sim: &mut Sim) -> (Value, Obj) {
        self.nops += 1;
        if self.nops % 2 == 1 {
            self.ctl.as_ref().unwrap().op(name);
        } else {
            self.h.as_ref().unwrap().op(name);
        }
        (Value::Null, Obj::new())
    }
    fn params(&self, cfg: &Value, size: Size, rng: &mut Rng) -> DriveParams {
        let mut p = DriveParams::default();
        p.n = if size == Size::Quick { 5 + rng.below(4) } else { 6 + rng.below(10) };
        p.steps = if size == Size::Quick { 70 } else { 160 };
        p.horizon = 8 * cfg["wait"].as_u64().unwrap().min(5) + 10;
        p.outs = vec![(GOut::Ok, 4), (GOut::Err(1), 6), (GOut::Err(2), 1), (GOut::Panic, 1)];
        p.w_drop = 1;
        p.w_op = 1;
        p.ops = vec!["force_open", "force_open", "force_closed", "reset"];
        p.max_adv = 3;
        if self.variant == "lazyc" {
            // late polls: response futures created while the breaker shows one state are first polled after it has
            // moved on (closed -> open -> half-open takes time, so time must pass while they are runnable)
            p.lazy = true;
            p.n = if size == Size::Quick { 8 + rng.below(5) } else { 10 + rng.below(6) };
            p.steps = if size == Size::Quick { 90 } else { 180 };
            p.w_create = 6;
            p.w_poll = 5;
            p.w_adv = 5;
            p.w_complete = 3;
            p.max_adv = cfg["wait"].as_u64().unwrap().min(5) + 1;
            p.outs = vec![(GOut::Ok, 2), (GOut::Err(1), 7), (GOut::Panic, 1)];
        }
        if self.variant == "storm" {
            // many callers arriving while open / half-open, trial calls that hang, cancellations, re-opening
            p.n = if size == Size::Quick { 10 + rng.below(5) } else { 12 + rng.below(5) };
            p.steps = if size == Size::Quick { 110 } else { 200 };
            p.w_create = 7;
            p.w_complete = 2;
            p.w_drop = 3;
            p.w_adv = 3;
            p.w_op = 2;
            p.ops = vec!["force_open"];
            p.outs = vec![(GOut::Ok, 2), (GOut::Err(1), 7), (GOut::Panic, 1)];
            p.max_adv = cfg["wait"].as_u64().unwrap();
        }
        p
    }
    fn script(&mut self, cfg: &Value, size: Size, rng: &mut Rng) -> Option<Vec<Value>> {
        if self.variant == "storm" {
            // open-loop macro steps: bursts of callers at an open / half-open breaker, trial calls that
            // hang across periods, one trial failing (re-open) or succeeding, cancellations of old and new callers
            let wait = cfg["wait"].as_u64().unwrap().min(5);
            let perm = cfg["perm"].as_u64().unwrap() as usize;
            let nmax = 16usize;
            let mut next = 1usize;
            let mut live: Vec<usize> = vec![];
            let mut v = vec![json!({"e":"op","name":"force_open"}), json!({"e":"advance","d":wait})];
            let rounds = if size == Size::Quick { 14 } else { 24 };
            for _ in 0..rounds {
                match rng.weighted(&[5, 3, 1, 4, 3, 1, 1]) {
                    0 => {
                        let k = 1 + rng.below(perm + 2);
                        for _ in 0..k {
                            if next <= nmax {
                                v.push(json!({"e":"create","c":next}));
                                v.push(json!({"e":"poll","c":next}));
                                live.push(next);
                                next += 1;
                            }
                        }
                    }
                    1 if !live.is_empty() => {
                        let c = live.remove(rng.below(live.len()));
                        v.push(json!({"e":"complete","c":c,"out":"e1"}));
                        v.push(json!({"e":"poll","c":c}));
                    }
                    2 if !live.is_empty() => {
                        let c = live.remove(rng.below(live.len()));
                        v.push(json!({"e":"complete","c":c,"out":"ok"}));
                        v.push(json!({"e":"poll","c":c}));
                    }
                    3 if !live.is_empty() => {
                        // cancel: prefer the oldest hanging caller half of the time
                        let i = if rng.pct(50) { 0 } else { rng.below(live.len()) };
                        let c = live.remove(i);
                        v.push(json!({"e":"drop","c":c}));
                    }
                    4 => v.push(json!({"e":"advance","d": if rng.pct(75) { wait } else { 1 }})),
                    5 => v.push(json!({"e":"op","name":"force_open"})),
                    _ => {
                        // manual recovery in the middle of a storm, then tripped again
                        v.push(json!({"e":"op","name": if rng.pct(70) { "reset" } else { "force_closed" }}));
                        v.push(json!({"e":"op","name":"force_open"}));
                        v.push(json!({"e":"advance","d": wait}));
                    }
                }
            }
            return Some(v);
        }
        if self.variant != "seq" {
            return None;
        }
        // sequential histories over {success, failure, slow success, slow failure, wait, force_open, force_closed, reset}
        let steps = if size == Size::Quick { 40 } else { 300 };
        let slow = cfg["slowThr"].as_u64().unwrap();
        let wait = cfg["wait"].as_u64().unwrap().min(5);
        let mut v = vec![];
        // bias: some runs are failure-heavy, some success-heavy
        let pfail = *rng.pick(&[20u32, 50, 80]);
        for _ in 0..steps {
            match rng.weighted(&[14, 3, 1, 1, 1]) {
                0 => {
                    let out = if rng.pct(pfail) { if rng.pct(25) { "e2" } else { "e1" } } else { "ok" };
                    v.push(json!({"e":"create","c":1}));
                    if cfg["lazy"].as_u64().unwrap_or(0) == 1 && rng.pct(30) {
                        // the response future is polled late: this time is not part of the call's duration
                        v.push(json!({"e":"advance","d": slow,"lazy":true}));
                    }
                    v.push(json!({"e":"poll","c":1}));
                    if rng.pct(25) {
                        v.push(json!({"e":"advance","d": if rng.pct(70) { slow } else { slow - 1 }}));
                    }
                    v.push(json!({"e":"complete","c":1,"out":out}));
                    v.push(json!({"e":"poll","c":1}));
                }
                1 => v.push(json!({"e":"advance","d": *rng.pick(&[1, wait, wait, wait - 1, wait + 1, 2 * wait + 3])})),
                2 => v.push(json!({"e":"op","name":"force_open"})),
                3 => v.push(json!({"e":"op","name":"force_closed"})),
                _ => v.push(json!({"e":"op","name":"reset"})),
            }
        }
        Some(v.into_iter().filter(|e| e["e"] != "advance" || e["d"].as_u64().unwrap_or(0) > 0).collect())
    }
    fn teardown(&mut self) {
        self.h = None;
        self.ctl = None;
        self.parked.clear();
        self.sib.clear();
    }
}
