pub mod bulkhead;
pub mod ratelimiter;
pub mod circuitbreaker;
pub mod budget;
pub mod adaptive;
pub mod retry;
pub mod backoff;
pub mod reconnect;
