pub mod bulkhead;
