pub mod bulkhead;
pub mod ratelimiter;
