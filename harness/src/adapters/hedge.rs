//! Adapter: tower-resilience-hedge (C12). Attempts run as spawned tasks.
use crate::drive::*;
use crate::sim::*;
use serde_json::{json, Value};
use std::time::Duration;
use tower::{Layer, Service};
use tower_resilience_hedge::{Hedge, HedgeError, HedgeLayer};

pub struct HedgeAd {
    svc: Option<Handles<Hedge<Inner>>>,
    w: Option<W>,
    blk: bool,
    sib: Vec<Sibling>,
}
impl HedgeAd {
    pub fn new() -> Self {
        HedgeAd { svc: None, w: None, blk: false, sib: vec![] }
    }
}
impl Adapter for HedgeAd {
    fn name(&self) -> &'static str {
        "hedge"
    }
    fn gen_cfg(&mut self, rng: &mut Rng, _size: Size) -> Value {
        let mut v = json!({"hm": rng.below(4), "max": 1 + rng.below(4), "mode": *rng.pick(&["fixed", "fixed", "par", "dyn", "dyn0"]), "d": 1 + rng.below(3), "lazy": if rng.pct(30) { 1 } else { 0 }, "pre": rng.below(4), "ord": rng.below(2), "blk": if rng.pct(25) { 1 } else { 0 }, "sib": rng.below(2), "max0": rng.below(2), "ls": 0});
        if v["lazy"] == 0 && v["sib"] == 0 && rng.pct(40) {
            v["ls"] = json!(1 + rng.below(2));
        }
        v
    }
    fn build(&mut self, cfg: &Value, sim: &mut Sim) {
        // cfg.pre: an earlier, overridden delay setting of another kind (the last one wins); cfg.ord: the
        // number of attempts before or after the delay
        // cfg.max0 = 1 with one attempt: the builder is told 0 ("no hedging"), which means the same as 1 - a pass-through
        let max = if cfg["max"].as_u64().unwrap() == 1 && cfg["max0"].as_u64().unwrap_or(0) == 1 { 0 } else { cfg["max"].as_u64().unwrap() as usize };
        let mut b = HedgeLayer::builder();
        let late_max = cfg["ord"].as_u64().unwrap_or(0) == 1;
        if !late_max {
            b = b.max_hedged_attempts(max);
        }
        b = match cfg["pre"].as_u64().unwrap_or(0) {
            1 => b.no_delay().name("pre"),
            2 => b.delay(Duration::from_millis(40)),
            3 => b.delay_fn(|_| Duration::from_millis(50)),
            _ => b,
        };
        b = match cfg["mode"].as_str().unwrap() {
            "fixed" => b.delay(Duration::from_millis(cfg["d"].as_u64().unwrap())),
            "par" => b.no_delay(),
            "dyn0" => b.delay_fn(|k| if k == 1 { Duration::from_millis(2) } else { Duration::ZERO }),
            _ => b.delay_fn(|k| Duration::from_millis(if k == 1 { 2 } else { 1 })),
        };
        if late_max {
            b = b.max_hedged_attempts(max);
        }
        // cfg.ls > 0: a listener that takes ls ms when the primary is announced (the paused clock is moved synchronously)
        let ls = cfg["ls"].as_u64().unwrap_or(0);
        if ls > 0 {
            b = b.on_event(tower_resilience_core::events::FnListener::new(move |e: &tower_resilience_hedge::HedgeEvent| {
                if matches!(e, tower_resilience_hedge::HedgeEvent::PrimaryStarted { .. }) {
                    let mut f = Box::pin(tokio::time::advance(Duration::from_millis(ls)));
                    let w = futures::task::noop_waker();
                    let mut cx = std::task::Context::from_waker(&w);
                    let _ = std::future::Future::poll(f.as_mut(), &mut cx);
                }
            }));
        }
        // (parked handles are replenished while readiness is blocked: no parked mode together with blk)
        let hm = if cfg["blk"].as_u64().unwrap_or(0) == 1 && cfg["hm"].as_u64().unwrap_or(0) == 3 { 0 } else { cfg["hm"].as_u64().unwrap_or(0) };
        let layer = b.build();
        // cfg.sib = 1: a second hedging service built from the same layer value has calls of its own in flight
        self.sib.clear();
        if cfg["sib"].as_u64().unwrap_or(0) == 1 {
            let w2 = sibling_world();
            self.sib.push(sibling_traffic(layer.layer(Inner::new(&w2)), w2, 3));
        }
        self.svc = Some(Handles::new(layer.layer(Inner::new(&sim.w)), hm));
        // blk = 1: only the handle the caller drives to readiness becomes ready; every further clone of the
        // wrapped service (the hedges' clones) stays Pending in poll_ready for ever
        self.blk = cfg["blk"].as_u64().unwrap_or(0) == 1;
        self.w = Some(sim.w.clone());
        sim.w.lock().unwrap().block_ready = self.blk;
    }
    fn mk(&mut self, req: &Req) -> CallFut {
        let w = self.w.clone().unwrap();
        let blk = self.blk;
        let f = self.svc.as_mut().unwrap().with(|s| {
            w.lock().unwrap().block_ready = false;
            ready_unless_parked(s);
            w.lock().unwrap().block_ready = blk;
            s.call(req.clone())
        });
        Box::pin(async move {
            match f.await {
                Ok(r) => Out::Ok { val: r.serial, req: r.req },
                Err(HedgeError::AllAttemptsFailed(e)) => Out::Err { kind: "allfailed".into(), val: e.serial as i64 },
                Err(HedgeError::Inner(e)) => Out::Err { kind: format!("inner{}", e.code), val: e.serial as i64 },
                #[allow(unreachable_patterns)]
                Err(_) => Out::Err { kind: "other".into(), val: -1 },
            }
        })
    }
    fn params(&self, _cfg: &Value, size: Size, rng: &mut Rng) -> DriveParams {
        let mut p = DriveParams::default();
        p.n = 1 + rng.below(if size == Size::Quick { 2 } else { 4 });
        p.steps = if size == Size::Quick { 50 } else { 120 };
        p.horizon = 30;
        p.outs = vec![(GOut::Ok, 3), (GOut::Err(1), 7)];
        p.w_drop = if rng.pct(20) { 1 } else { 0 };
        p.w_complete = 3;
        p.max_adv = 2;
        p.spurious_pct = 0;
        p.lazy = _cfg["lazy"].as_u64().unwrap_or(0) == 1;
        if p.lazy {
            p.w_adv = 8;
            p.max_adv = 4;
        }
        p
    }
    fn finale(&self, _cfg: &Value) -> Vec<Value> {
        vec![json!({"e":"settle"}), json!({"e":"completeall","out":"e1"}), json!({"e":"settle"})]
    }
    fn teardown(&mut self) {
        self.svc = None;
        self.sib.clear();
    }
}
