//! Atomic-step scenarios: retry budgets (C08) and adaptive limit controllers (C13, limit half)
use crate::atomic::*;
use crate::drive::Size;
use crate::sim::{Obj, Rng};
use serde_json::{json, Value};
use std::sync::Arc;
use std::time::Duration;
use tower_resilience_adaptive::{Aimd, ConcurrencyAlgorithm, Vegas};
use tower_resilience_retry::{AimdBudget, RetryBudget, TokenBucketBudget};

/// ctor 0: the type's `new`; 1, 2: RetryBudgetBuilder with the options in two different orders
pub fn mk_budget_cfg(kind: &str, minb: usize, max: usize, initial: usize, amount: usize, cost: usize, fnum: u64, ctor: u64) -> Arc<dyn RetryBudget> {
    use tower_resilience_retry::RetryBudgetBuilder;
    let f = fnum as f64 / 4.0;
    if kind == "tb" {
        match ctor {
            1 => RetryBudgetBuilder::new().token_bucket().tokens_per_second(0.0).max_tokens(max).initial_tokens(initial).build(),
            2 => RetryBudgetBuilder::new().token_bucket().initial_tokens(initial).max_tokens(max).tokens_per_second(0.0).build(),
            _ => Arc::new(TokenBucketBudget::new(0.0, max, initial)),
        }
    } else {
        match ctor {
            1 => RetryBudgetBuilder::new().aimd().min_budget(minb).max_budget(max).deposit_amount(amount).withdraw_amount(cost).decrease_factor(f).build(),
            2 => RetryBudgetBuilder::new().aimd().decrease_factor(f).withdraw_amount(cost).deposit_amount(amount).max_budget(max).min_budget(minb).build(),
            _ => Arc::new(AimdBudget::new(minb, max, amount, cost, f)),
        }
    }
}
fn mk_budget(cfg: &Value) -> Arc<dyn RetryBudget> {
    let u = |k: &str| cfg[k].as_u64().unwrap() as usize;
    mk_budget_cfg(cfg["kind"].as_str().unwrap(), u("minb"), u("max"), u("initial"), u("amount"), u("cost"), cfg["fnum"].as_u64().unwrap(), cfg["ctor"].as_u64().unwrap_or(0))
}
fn budget_scenario(cfg: &Value, ops: &[&str]) -> Scenario {
    let b = mk_budget(cfg);
    let mut v: Vec<(String, OpFn)> = vec![];
    let phase = phases(ops);
    for o in ops {
        let b2 = b.clone();
        let o = &o.trim_start_matches(['<', '>']);
        if *o == "W" {
            v.push(("W".into(), Box::new(move || format!("{}", b2.try_withdraw()))));
        } else {
            v.push(("D".into(), Box::new(move || {
                b2.deposit();
                "unit".to_string()
            })));
        }
    }
    let b3 = b.clone();
    Scenario { ops: v, phase, obs: Arc::new(move || {
        let mut m = Obj::new();
        m.insert("bal".into(), json!(b3.balance()));
        m
    }) }
}
/// "<X": sequential operation before the concurrent ones, ">X": after them, in list order
fn phases(ops: &[&str]) -> Vec<usize> {
    let npre = ops.iter().filter(|o| o.starts_with('<')).count();
    let (mut pre, mut post) = (0, 0);
    ops.iter().map(|o| {
        if o.starts_with('<') {
            pre += 1;
            pre - 1
        } else if o.starts_with('>') {
            post += 1;
            npre + post
        } else {
            npre
        }
    }).collect()
}
pub fn run_budget(seed: u64, size: Size, out: &mut Vec<String>) -> (usize, usize, bool) {
    let mut rng = Rng::new(seed);
    let mut cfgs = vec![
        json!({"kind":"tb","initial":1,"max":2,"cost":1,"amount":1,"minb":1,"fnum":2}),
        json!({"kind":"tb","initial":2,"max":2,"cost":1,"amount":1,"minb":1,"fnum":2}),
        json!({"kind":"tb","initial":0,"max":1,"cost":1,"amount":1,"minb":1,"fnum":2}),
        json!({"kind":"aimd","initial":2,"max":2,"cost":1,"amount":1,"minb":1,"fnum":2}),
        json!({"kind":"aimd","initial":3,"max":3,"cost":2,"amount":1,"minb":1,"fnum":2,"ctor":1}),
        json!({"kind":"aimd","initial":2,"max":2,"cost":1,"amount":2,"minb":2,"fnum":4,"ctor":2}),
    ];
    let lists: Vec<Vec<&str>> = vec![vec!["W", "D"], vec!["D", "D"], vec!["W", "W"], vec!["W", "W", "D"], vec!["W", "D", "D"], vec!["D", "D", "D"], vec!["W", "W", "W"]];
    let lists4: Vec<Vec<&str>> = vec![vec!["W", "W", "D", "D"], vec!["W", "D", "D", "D"], vec!["W", "W", "W", "D"]];
    // a budget that was exhausted and is recovering (its dynamic ceiling one step below the maximum), two
    // concurrent deposits, then sequential deposits and withdrawals: "<" before, ">" after the concurrent part
    let recovering: Vec<Vec<&str>> = vec![vec!["<W", "<W", "<D", "D", "D", ">D", ">D", ">W"], vec!["<W", "<W", "<D", "D", "W", ">D", ">D"]];
    let rec_cfgs = vec![
        json!({"kind":"aimd","initial":3,"max":3,"cost":3,"amount":1,"minb":1,"fnum":2,"ctor":1}),
        json!({"kind":"aimd","initial":4,"max":4,"cost":4,"amount":1,"minb":3,"fnum":3,"ctor":2}),
        json!({"kind":"tb","initial":2,"max":2,"cost":1,"amount":1,"minb":1,"fnum":2,"ctor":1}),
    ];
    if size == Size::Thorough {
        cfgs.push(json!({"kind":"tb","initial":1,"max":1,"cost":1,"amount":1,"minb":1,"fnum":2}));
        cfgs.push(json!({"kind":"aimd","initial":1,"max":1,"cost":1,"amount":1,"minb":1,"fnum":0}));
        cfgs.push(json!({"kind":"aimd","initial":3,"max":3,"cost":1,"amount":1,"minb":1,"fnum":3}));
    }
    let (mut ns, mut ne, mut ex) = (0, 0, true);
    for (ci, cfg) in cfgs.iter().enumerate() {
        for l in lists.iter().chain(if size == Size::Thorough { lists4.iter() } else { [].iter() }) {
            // quick: two-operation lists exhaustively, three-operation lists exhaustively for the
            // first token bucket only and sampled otherwise
            let (cap, extra) = if size == Size::Thorough { if l.len() <= 3 { (8000, 500) } else { (1500, 1500) } } else if l.len() == 2 { (3000, 0) } else if ci == 0 { (6000, 0) } else { (150, 150) };
            let reset = json!({"e":"reset","comp":"budget","cfg":cfg,"ops":l,"seed":seed});
            let st = explore(&|| budget_scenario(cfg, l), &reset, cap, extra, &mut rng, out);
            ns += st.schedules;
            ne += st.events;
            ex &= st.exhaustive;
        }
    }
    for cfg in rec_cfgs.iter() {
        for l in recovering.iter() {
            let reset = json!({"e":"reset","comp":"budget","cfg":cfg,"ops":l,"seed":seed});
            let st = explore(&|| budget_scenario(cfg, l), &reset, if size == Size::Thorough { 4000 } else { 600 }, 100, &mut rng, out);
            ns += st.schedules;
            ne += st.events;
            ex &= st.exhaustive;
        }
    }
    (ns, ne, ex)
}

// ---- adaptive limit controllers: min <= limit <= max after every atomic step
fn limit_scenario(cfg: &Value, ops: &[&str]) -> Scenario {
    let u = |k: &str| cfg[k].as_u64().unwrap() as usize;
    let alg: Arc<dyn ConcurrencyAlgorithm> = if cfg["kind"] == "aimd" {
        Arc::new(
            Aimd::builder()
                .initial_limit(u("initial"))
                .min_limit(u("min"))
                .max_limit(u("max"))
                .increase_by(u("inc"))
                .decrease_factor(u("fnum") as f64 / 4.0)
                .latency_threshold(Duration::from_millis(10))
                .build(),
        )
    } else {
        let v = Vegas::builder().initial_limit(u("initial")).min_limit(u("min")).max_limit(u("max")).alpha(u("alpha")).beta(u("beta")).build();
        // warm up past min_samples without the scheduler (no hook installed on this thread)
        for k in 0..12 {
            v.record_success(Duration::from_millis(2 + (k % 3)));
        }
        Arc::new(v)
    };
    let mut v: Vec<(String, OpFn)> = vec![];
    let phase = phases(ops);
    for o in ops {
        let a = alg.clone();
        let o = &o.trim_start_matches(['<', '>']);
        let name = o.to_string();
        match *o {
            "S" => v.push((name, Box::new(move || {
                a.record_success(Duration::from_millis(1));
                "unit".into()
            }))),
            "L" => v.push((name, Box::new(move || {
                a.record_success(Duration::from_millis(50));
                "unit".into()
            }))),
            _ => v.push((name, Box::new(move || {
                a.record_failure();
                "unit".into()
            }))),
        }
    }
    let a2 = alg.clone();
    Scenario { ops: v, phase, obs: Arc::new(move || {
        let mut m = Obj::new();
        m.insert("limit".into(), json!(a2.limit()));
        m.insert("lo".into(), json!(a2.min_limit()));
        m.insert("hi".into(), json!(a2.max_limit()));
        m
    }) }
}
pub fn run_limit(seed: u64, size: Size, out: &mut Vec<String>) -> (usize, usize, bool) {
    let mut rng = Rng::new(seed ^ 0x5151);
    let cfgs = vec![
        json!({"kind":"aimd","initial":2,"min":1,"max":3,"inc":1,"fnum":2,"alpha":0,"beta":0}),
        json!({"kind":"aimd","initial":3,"min":2,"max":3,"inc":2,"fnum":3,"alpha":0,"beta":0}),
        json!({"kind":"aimd","initial":1,"min":1,"max":1,"inc":1,"fnum":0,"alpha":0,"beta":0}),
        json!({"kind":"aimd","initial":9,"min":1,"max":4,"inc":3,"fnum":4,"alpha":0,"beta":0}),
        json!({"kind":"vegas","initial":2,"min":1,"max":3,"inc":1,"fnum":2,"alpha":1,"beta":2}),
        json!({"kind":"vegas","initial":3,"min":2,"max":3,"inc":1,"fnum":2,"alpha":3,"beta":6}),
        json!({"kind":"vegas","initial":1,"min":1,"max":1,"inc":1,"fnum":2,"alpha":0,"beta":0}),
    ];
    let lists: Vec<Vec<&str>> = vec![vec!["S", "F"], vec!["S", "S"], vec!["F", "F"], vec!["L", "F"], vec!["S", "F", "F"], vec!["S", "L", "F"], vec!["S", "S", "F"],
        // recovering controller (one step below its ceiling after a failure), two concurrent successes, one more after them
        vec!["<F", "<S", "S", "S", ">S"], vec!["<F", "S", "S", ">S", ">F", ">S"]];
    let (cap, extra) = if size == Size::Quick { (400, 100) } else { (6000, 1000) };
    let (mut ns, mut ne, mut ex) = (0, 0, true);
    for cfg in &cfgs {
        for l in &lists {
            let reset = json!({"e":"reset","comp":"limit","cfg":cfg,"ops":l,"seed":seed});
            let st = explore(&|| limit_scenario(cfg, l), &reset, cap, extra, &mut rng, out);
            ns += st.schedules;
            ne += st.events;
            ex &= st.exhaustive;
        }
    }
    (ns, ne, ex)
}

/// replay: re-run the recorded thread schedule of every run in the input
pub fn replay(input: &str, out: &mut Vec<String>) -> (usize, usize) {
    let mut runs: Vec<(Value, Vec<usize>)> = vec![];
    for line in input.lines() {
        let Ok(v) = serde_json::from_str::<Value>(line.trim()) else { continue };
        match v["e"].as_str() {
            Some("reset") => runs.push((v, vec![])),
            Some("step") | Some("ret") => {
                if let Some(r) = runs.last_mut() {
                    r.1.push(v["th"].as_u64().unwrap_or(1) as usize - 1);
                }
            }
            _ => {}
        }
    }
    let (mut ns, mut ne) = (0, 0);
    for (reset, prefix) in runs {
        let cfg = reset["cfg"].clone();
        let ops: Vec<String> = reset["ops"].as_array().map(|a| a.iter().map(|x| x.as_str().unwrap_or("W").to_string()).collect()).unwrap_or_default();
        let opr: Vec<&str> = ops.iter().map(|s| s.as_str()).collect();
        let sc = if reset["comp"] == "limit" { limit_scenario(&cfg, &opr) } else { budget_scenario(&cfg, &opr) };
        let (events, _) = run_schedule(sc, &prefix, &mut |en| en[0]);
        out.push(reset.to_string());
        ns += 1;
        ne += 1 + events.len();
        for e in &events {
            out.push(e.to_string());
        }
    }
    (ns, ne)
}
