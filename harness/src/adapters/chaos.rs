//! Scenario for C19: twin chaos instances (same cfg and seed), instance A sequential, instance B pipelined.
use crate::drive::{sibling_traffic, sibling_world, Size};
use crate::sim::*;
use serde_json::{json, Value};
use std::time::Duration;
use tower::{Layer, Service};
use tower_resilience_chaos::ChaosLayer;

type MkFn = Box<dyn FnMut(&Req) -> CallFut>;
fn map_res(r: Result<Resp, IErr>) -> Out {
    match r {
        Ok(r) => Out::Ok { val: r.serial, req: r.req },
        Err(e) => Out::Err { kind: format!("inner{}", e.code), val: e.serial as i64 },
    }
}
macro_rules! mkfn {
    ($svc:expr, $mode:expr) => {{
        // handle usage: 0 = one handle for every request, 1 = a fresh clone per request, 2 = two alternating clones
        let mode: u64 = $mode;
        let mut svc = $svc;
        let mut alt = svc.clone();
        let mut n = 0u64;
        Box::new(move |req: &Req| -> CallFut {
            n += 1;
            let mut fresh = svc.clone();
            let s = match mode {
                0 => &mut svc,
                1 => &mut fresh,
                _ => if n % 2 == 0 { &mut alt } else { &mut svc },
            };
            let w = futures::task::noop_waker();
            let mut cx = std::task::Context::from_waker(&w);
            let _ = s.poll_ready(&mut cx);
            let f = s.call(req.clone());
            Box::pin(async move { map_res(f.await) })
        }) as MkFn
    }};
}
fn inject(_r: &Req) -> IErr {
    IErr { code: 99, serial: 0 }
}
fn build(cfg: &Value, sim: &Sim, seed: u64, mode: u64) -> MkFn {
    let u = |k: &str| cfg[k].as_u64().unwrap();
    let inner = Inner::new(&sim.w);
    let (er, lr) = (u("er") as f64 / 100.0, u("lr") as f64 / 100.0);
    if u("er") == 0 && cfg["noinj"].as_u64().unwrap_or(0) == 1 {
        // latency-only chaos: the default (no) error injector
        let layer = if cfg["ord"].as_u64().unwrap_or(0) >= 2 {
            ChaosLayer::builder().seed(seed).max_latency(Duration::from_millis(u("mx"))).min_latency(Duration::from_millis(u("mn"))).latency_rate(lr).build()
        } else {
            ChaosLayer::builder().latency_rate(lr).min_latency(Duration::from_millis(u("mn"))).max_latency(Duration::from_millis(u("mx"))).seed(seed).build()
        };
        if mode != 0 {
            // the twin's layer value also builds a sibling service that sees traffic first: its draws are its own
            let w2 = sibling_world();
            let _ = sibling_traffic(layer.layer(Inner::new(&w2)), w2, 3);
        }
        mkfn!(layer.layer(inner), mode)
    } else {
        let (mn, mx) = (Duration::from_millis(u("mn")), Duration::from_millis(u("mx")));
        // builder call order: latency settings before or after the (typestate-changing) error settings
        let ord = cfg["ord"].as_u64().unwrap_or(0);
        let layer = if ord == 2 {
            // the upper latency bound before the lower one, both before the error settings
            ChaosLayer::builder().max_latency(mx).min_latency(mn).latency_rate(lr).seed(seed).error_fn(inject as fn(&Req) -> IErr).error_rate(er).build()
        } else if ord == 3 {
            ChaosLayer::builder().error_fn(inject as fn(&Req) -> IErr).seed(seed).max_latency(mx).error_rate(er).latency_rate(lr).min_latency(mn).build()
        } else if ord == 1 {
            ChaosLayer::builder()
                .latency_rate(lr)
                .min_latency(mn)
                .max_latency(mx)
                .seed(seed)
                .error_rate(er)
                .error_fn(inject as fn(&Req) -> IErr)
                .build()
        } else {
            ChaosLayer::builder()
                .error_rate(er)
                .error_fn(inject as fn(&Req) -> IErr)
                .latency_rate(lr)
                .min_latency(mn)
                .max_latency(mx)
                .seed(seed)
                .build()
        };
        if mode != 0 {
            // the twin's layer value also builds a sibling service that sees traffic first: its draws are its own
            let w2 = sibling_world();
            let _ = sibling_traffic(layer.layer(Inner::new(&w2)), w2, 3);
        }
        mkfn!(layer.layer(inner), mode)
    }
}
struct Obs {
    err: bool,
    d: u64,
    ns: u64,
    intact: bool,
}
/// run requests 1..=n on one instance; `batch` = how many are issued before they are polled (in order)
async fn instance(cfg: &Value, cseed: u64, n: usize, batch: usize, mode: u64) -> Vec<Obs> {
    let mut sim = Sim::new();
    sim.reset("chaos", cfg, cseed, 0);
    let mut mk = build(cfg, &sim, cseed, mode);
    let mut obs: Vec<Obs> = vec![];
    let mut k = 1;
    while k <= n {
        let hi = (k + batch - 1).min(n);
        for c in k..=hi {
            sim.create(c, Req { id: c as u32, key: 1 }, &mut |r| mk(r)).await;
        }
        // first polls in the order of issue
        let mut first: Vec<u64> = vec![];
        let mut started: Vec<Option<u64>> = vec![];
        let mut fin: Vec<Option<Out>> = vec![];
        for c in k..=hi {
            let before = sim.w.lock().unwrap().gates.len();
            let t = sim.now_ms();
            let r = sim.poll(c).await;
            first.push(t);
            let after = sim.w.lock().unwrap().gates.len();
            started.push(if after > before { Some(t) } else { None });
            fin.push(match r {
                PollRes::Ready(o) => Some(o),
                _ => None,
            });
        }
        // let sleepers wake, poll them as they wake, until every unfinished request has started its inner call
        let mut guard = 0;
        loop {
            let pending: Vec<usize> = (k..=hi).filter(|c| fin[c - k].is_none() && started[c - k].is_none()).collect();
            if pending.is_empty() || guard > 400 {
                break;
            }
            guard += 1;
            let woken = sim.needs_poll();
            if woken.is_empty() {
                sim.advance(1).await;
                continue;
            }
            for c in woken {
                let before = sim.w.lock().unwrap().gates.len();
                let t = sim.now_ms();
                let r = sim.poll(c).await;
                let after = sim.w.lock().unwrap().gates.len();
                if after > before && started[c - k].is_none() {
                    started[c - k] = Some(t);
                }
                if let PollRes::Ready(o) = r {
                    fin[c - k] = Some(o);
                }
            }
        }
        // complete the inner calls and collect the results
        for c in k..=hi {
            if fin[c - k].is_none() {
                let gate: Option<usize> = {
                    let g = sim.w.lock().unwrap();
                    (0..g.gates.len()).find(|&i| g.gates[i].state == GState::Pending && g.gates[i].req.id == c as u32).map(|i| i + 1)
                };
                if let Some(i) = gate {
                    sim.complete(i, GOut::Ok).await;
                }
                if let PollRes::Ready(o) = sim.poll(c).await {
                    fin[c - k] = Some(o);
                }
            }
        }
        for c in k..=hi {
            let ns = sim.w.lock().unwrap().gates.iter().filter(|g| g.req.id == c as u32).count() as u64;
            let (err, intact) = match &fin[c - k] {
                Some(Out::Err { kind, .. }) if kind == "inner99" => (true, false),
                Some(Out::Ok { req, .. }) => (false, *req == c as u32),
                _ => (false, false),
            };
            let d = started[c - k].map(|s| s - first[c - k]).unwrap_or(0);
            obs.push(Obs { err, d, ns, intact });
        }
        k = hi + 1;
    }
    obs
}
pub fn run_chaos(seed: u64, size: Size, out: &mut Vec<String>) -> (usize, usize) {
    let rt = tokio::runtime::Builder::new_current_thread().enable_time().start_paused(true).build().unwrap();
    let mut cfgs: Vec<(Value, u64)> = vec![];
    let nseeds = if size == Size::Quick { 6 } else { 120 };
    for er in [0u64, 30, 100] {
        for lr in [0u64, 30, 100] {
            for (mn, mx) in [(10u64, 10u64), (10, 20), (20, 10), (0, 0), (0, 3), (1, 5)] {
                for s in 0..nseeds {
                    cfgs.push((json!({"er":er,"lr":lr,"mn":mn,"mx":mx,"seeded":1,"noinj": (s % 2),"ord": ((s / 2) % 4)}), s as u64 * 7919 + seed));
                }
            }
        }
    }
    let n = if size == Size::Quick { 24 } else { 50 };
    let mut ne = 0;
    let mut rng = Rng::new(seed);
    for (cfg, cseed) in &cfgs {
        out.push(json!({"e":"reset","comp":"chaos","cfg":cfg,"seed":cseed}).to_string());
        ne += 1;
        let batch = 2 + rng.below(4);
        // instance A: one handle, each request awaited; instance B: clones of the service, batches
        let a = rt.block_on(instance(cfg, *cseed, n, 1, 0));
        let b = rt.block_on(instance(cfg, *cseed, n, batch, 1 + rng.below(2) as u64));
        for (inst, obs) in [("A", &a), ("B", &b)] {
            for (i, o) in obs.iter().enumerate() {
                out.push(json!({"e":"req","inst":inst,"k":i + 1,"err":o.err,"d":o.d,"ns":o.ns,"intact":o.intact}).to_string());
                ne += 1;
            }
        }
    }
    (cfgs.len(), ne)
}
pub fn replay(input: &str, out: &mut Vec<String>) -> (usize, usize) {
    let rt = tokio::runtime::Builder::new_current_thread().enable_time().start_paused(true).build().unwrap();
    let (mut nr, mut ne) = (0, 0);
    for line in input.lines() {
        let Ok(v) = serde_json::from_str::<Value>(line.trim()) else { continue };
        if v["e"] != "reset" {
            continue;
        }
        let cfg = v["cfg"].clone();
        let cseed = v["seed"].as_u64().unwrap_or(0);
        out.push(json!({"e":"reset","comp":"chaos","cfg":cfg,"seed":cseed}).to_string());
        let a = rt.block_on(instance(&cfg, cseed, 24, 1, 0));
        let b = rt.block_on(instance(&cfg, cseed, 24, 3, 1));
        for (inst, obs) in [("A", &a), ("B", &b)] {
            for (i, o) in obs.iter().enumerate() {
                out.push(json!({"e":"req","inst":inst,"k":i + 1,"err":o.err,"d":o.d,"ns":o.ns,"intact":o.intact}).to_string());
                ne += 1;
            }
        }
        nr += 1;
    }
    (nr, ne)
}
