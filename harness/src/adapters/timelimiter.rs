//! Adapter: tower-resilience-timelimiter (C06)
use crate::drive::*;
use crate::sim::*;
use serde_json::{json, Value};
use std::time::Duration;
use tower::{Layer, Service};
use tower_resilience_timelimiter::{TimeLimiterError, TimeLimiterLayer};

type MkFn = Box<dyn FnMut(&Req) -> CallFut>;
pub struct TimeLimiterAd {
    mkf: Option<MkFn>,
    sib: Vec<Sibling>,
}
impl TimeLimiterAd {
    pub fn new() -> Self {
        TimeLimiterAd { mkf: None, sib: vec![] }
    }
}
fn map_res(r: Result<Resp, TimeLimiterError<IErr>>) -> Out {
    match r {
        Ok(r) => Out::Ok { val: r.serial, req: r.req },
        Err(TimeLimiterError::Timeout) => Out::Err { kind: "timeout".into(), val: -1 },
        Err(TimeLimiterError::Inner(e)) => Out::Err { kind: format!("inner{}", e.code), val: e.serial as i64 },
    }
}
macro_rules! mkfn {
    ($svc:expr) => {{
        let svc = $svc;
        Box::new(move |req: &Req| -> CallFut {
            let mut s = svc.clone();
            let w = futures::task::noop_waker();
            let mut cx = std::task::Context::from_waker(&w);
            let _ = s.poll_ready(&mut cx);
            let f = s.call(req.clone());
            Box::pin(async move { map_res(f.await) })
        }) as MkFn
    }};
}
impl Adapter for TimeLimiterAd {
    fn name(&self) -> &'static str {
        "timelimiter"
    }
    fn gen_cfg(&mut self, rng: &mut Rng, _size: Size) -> Value {
        // T: fixed timeout (ms); perReq = 1: timeout is key ms (keys 1..5); ord: builder call order
        let cancel = rng.below(2);
        // lazy = 1: the executor may poll late (only explored for the deterministic cancel mode)
        json!({"T": *rng.pick(&[0u64, 1, 2, 3, 4, 6, 1000000]), "perReq": rng.below(2), "cancel": cancel, "ord": rng.below(2), "sib": rng.below(2), "lazy": if cancel == 1 && rng.pct(35) { 1 } else { 0 }})
    }
    fn build(&mut self, cfg: &Value, sim: &mut Sim) {
        // T >= 1000000 stands for "no deadline": Duration::MAX, fixed or per request
        let unbounded = cfg["T"].as_u64().unwrap() >= 1000000;
        let t = if unbounded { Duration::MAX } else { Duration::from_millis(cfg["T"].as_u64().unwrap()) };
        let cancel = cfg["cancel"].as_u64().unwrap() == 1;
        let ord = cfg["ord"].as_u64().unwrap_or(0) == 1;
        let inner = Inner::new(&sim.w);
        // cfg.sib = 1: a second time limiter built from the same layer value has calls of its own in flight
        self.sib.clear();
        let sib = cfg["sib"].as_u64().unwrap_or(0) == 1;
        let f = move |r: &Req| if unbounded { Duration::MAX } else { Duration::from_millis(r.key as u64) };
        self.mkf = Some(if cfg["perReq"].as_u64().unwrap() == 1 {
            let b = TimeLimiterLayer::builder();
            let layer = if ord { b.cancel_running_future(cancel).timeout_fn(f).build() } else { b.timeout_fn(f).cancel_running_future(cancel).build() };
            if sib {
                let w2 = sibling_world();
                self.sib.push(sibling_traffic(layer.layer(Inner::new(&w2)), w2, 4));
            }
            mkfn!(layer.layer(inner))
        } else {
            let b = TimeLimiterLayer::builder();
            let layer = if ord { b.cancel_running_future(cancel).timeout_duration(t).build() } else { b.timeout_duration(t).cancel_running_future(cancel).build() };
            if sib {
                let w2 = sibling_world();
                self.sib.push(sibling_traffic(layer.layer(Inner::new(&w2)), w2, 4));
            }
            mkfn!(layer.layer(inner))
        });
    }
    fn mk(&mut self, req: &Req) -> CallFut {
        (self.mkf.as_mut().unwrap())(req)
    }
    fn params(&self, _cfg: &Value, size: Size, rng: &mut Rng) -> DriveParams {
        let mut p = DriveParams::default();
        p.n = 2 + rng.below(if size == Size::Quick { 3 } else { 6 });
        p.keys = 5;
        p.steps = if size == Size::Quick { 50 } else { 120 };
        p.horizon = 25;
        p.outs = vec![(GOut::Ok, 5), (GOut::Err(1), 3)];
        p.w_drop = 1;
        p.max_adv = 2;
        p.lazy = _cfg["lazy"].as_u64().unwrap_or(0) == 1;
        if p.lazy {
            p.w_adv = 8;
            p.max_adv = 3;
        }
        p
    }
    fn finale(&self, _cfg: &Value) -> Vec<Value> {
        // let every deadline pass, then complete whatever still runs detached
        vec![json!({"e":"settle"}), json!({"e":"advance","d":8}), json!({"e":"settle"}), json!({"e":"completeall","out":"ok"}), json!({"e":"settle"})]
    }
    fn teardown(&mut self) {
        self.mkf = None;
        self.sib.clear();
    }
}
