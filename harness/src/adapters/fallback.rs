//! Adapter: tower-resilience-fallback (C17)
use crate::drive::*;
use crate::sim::*;
use futures::future::BoxFuture;
use serde_json::{json, Value};
use std::sync::atomic::{AtomicU64, Ordering};
use std::sync::Arc;
use tower::{Layer, Service};
use tower_resilience_fallback::{Fallback, FallbackError, FallbackLayer};

pub struct FallbackAd {
    svc: Option<Handles<Fallback<Inner, Req, Resp, IErr>>>,
}
impl FallbackAd {
    pub fn new() -> Self {
        FallbackAd { svc: None }
    }
}
impl Adapter for FallbackAd {
    fn name(&self) -> &'static str {
        "fallback"
    }
    fn gen_cfg(&mut self, rng: &mut Rng, _size: Size) -> Value {
        json!({"hm": rng.below(4), "strat": *rng.pick(&["value", "valuefn", "fromerr", "fromreq", "service", "exception"]), "pred": rng.below(2), "bk": *rng.pick(&["ok", "err", "err2"]), "ord": rng.below(2)})
    }
    fn build(&mut self, cfg: &Value, sim: &mut Sim) {
        let vfn = Arc::new(AtomicU64::new(0));
        let bkc = Arc::new(AtomicU64::new(0));
        let mut b = FallbackLayer::<Req, Resp, IErr>::builder();
        let bk_ok = cfg["bk"] == "ok";
        let bk_code = if cfg["bk"] == "err2" { 2 } else { 74 };
        // builder call order: predicate before or after the strategy
        let pred_first = cfg["ord"].as_u64().unwrap_or(0) == 1;
        if pred_first && cfg["pred"].as_u64().unwrap() == 1 {
            b = b.handle(|e: &IErr| e.code != 2);
        }
        b = match cfg["strat"].as_str().unwrap() {
            "value" => b.value(Resp { serial: 7000, req: 0 }),
            "valuefn" => {
                let v = vfn.clone();
                b.value_fn(move || Resp { serial: 7100 + v.fetch_add(1, Ordering::SeqCst) + 1, req: 0 })
            }
            "fromerr" => b.from_error(|e: &IErr| Resp { serial: 7200 + e.code as u64, req: e.serial as u32 }),
            "fromreq" => b.from_request_error(|r: &Req, e: &IErr| Resp { serial: 7300 + e.code as u64, req: 1000 * r.id + e.serial as u32 }),
            "service" => {
                let k = bkc.clone();
                b.service(move |r: Req| -> BoxFuture<'static, Result<Resp, IErr>> {
                    k.fetch_add(1, Ordering::SeqCst);
                    Box::pin(async move {
                        if bk_ok {
                            Ok(Resp { serial: 7400, req: r.id })
                        } else {
                            Err(IErr { code: bk_code, serial: r.id as u64 })
                        }
                    })
                })
            }
            _ => b.exception(|e: IErr| IErr { code: e.code + 50, serial: e.serial }),
        };
        if !pred_first && cfg["pred"].as_u64().unwrap() == 1 {
            b = b.handle(|e: &IErr| e.code != 2);
        }
        self.svc = Some(Handles::new(b.build().layer(Inner::new(&sim.w)), cfg["hm"].as_u64().unwrap_or(0)));
        sim.obs = Some(Box::new(move || {
            let mut m = Obj::new();
            m.insert("vfn".into(), json!(vfn.load(Ordering::SeqCst)));
            m.insert("bk".into(), json!(bkc.load(Ordering::SeqCst)));
            m
        }));
    }
    fn mk(&mut self, req: &Req) -> CallFut {
        let f = self.svc.as_mut().unwrap().with(|s| {
            ready_unless_parked(s);
            s.call(req.clone())
        });
        Box::pin(async move {
            match f.await {
                Ok(r) => Out::Ok { val: r.serial, req: r.req },
                Err(FallbackError::Inner(e)) => Out::Err { kind: format!("inner{}", e.code), val: e.serial as i64 },
                Err(FallbackError::FallbackFailed(e)) => Out::Err { kind: format!("fbfailed{}", e.code), val: e.serial as i64 },
            }
        })
    }
    fn params(&self, _cfg: &Value, size: Size, rng: &mut Rng) -> DriveParams {
        let mut p = DriveParams::default();
        p.n = 3 + rng.below(if size == Size::Quick { 5 } else { 9 });
        p.steps = if size == Size::Quick { 50 } else { 110 };
        p.horizon = 5;
        p.outs = vec![(GOut::Ok, 3), (GOut::Err(1), 4), (GOut::Err(2), 3)];
        p.w_drop = if rng.pct(20) { 1 } else { 0 };
        p.w_adv = 1;
        p
    }
    fn teardown(&mut self) {
        self.svc = None;
    }
}
