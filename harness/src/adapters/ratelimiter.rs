//! Adapter: tower-resilience-ratelimiter (C02, C15). Inner service answers at once.
use crate::drive::*;
use crate::sim::*;
use serde_json::{json, Value};
use std::time::Duration;
use tower::{Layer, Service};
use tower_resilience_ratelimiter::{RateLimiter, RateLimiterLayer, RateLimiterServiceError, WindowType};

pub struct RateLimiterAd {
    svc: Option<Handles<RateLimiter<Inner>>>,
    sib: Vec<Sibling>,
    variant: String,
}
impl RateLimiterAd {
    pub fn new(variant: &str) -> Self {
        RateLimiterAd { svc: None, sib: vec![], variant: variant.into() }
    }
}
fn map_res(r: Result<Resp, RateLimiterServiceError<IErr>>) -> Out {
    match r {
        Ok(r) => Out::Ok { val: r.serial, req: r.req },
        Err(RateLimiterServiceError::RateLimited) => Out::Err { kind: "limited".into(), val: -1 },
        Err(RateLimiterServiceError::Inner(e)) => Out::Err { kind: format!("inner{}", e.code), val: e.serial as i64 },
        #[allow(unreachable_patterns)]
        Err(_) => Out::Err { kind: "other".into(), val: -1 },
    }
}
impl Adapter for RateLimiterAd {
    fn name(&self) -> &'static str {
        "ratelimiter"
    }
    fn gen_cfg(&mut self, rng: &mut Rng, size: Size) -> Value {
        let win = *rng.pick(&["fixed", "log", "counter"]);
        let l = 1 + rng.below(if size == Size::Quick { 3 } else { 5 });
        let p = *rng.pick(&[3u64, 4, 5, 8]);
        // 1000000 stands for Duration::MAX: callers wait as long as it takes
        let t = if rng.pct(5) { 1000000 } else { *rng.pick(&[0u64, 1, 2, p - 1, p, p + 1, 2 * p, 2 * p + 1, 4 * p]) };
        json!({"hm": rng.below(4), "win": win, "L": l, "P": p, "T": t, "slow": if rng.pct(35) { 1 } else { 0 }, "subp": if win != "counter" && rng.pct(35) { 1 } else { 0 }, "base": if rng.pct(40) { 1 + rng.below(3) } else { 0 }, "ord": rng.below(3), "sib": rng.below(2),
               "lazy": if self.variant == "lazy" { 1 } else { 0 }})
    }
    fn build(&mut self, cfg: &Value, sim: &mut Sim) {
        // slow = 1: admitted calls stay inside the inner service until the environment resolves them (or the caller is
        // cancelled); otherwise the inner service answers at once
        if cfg["slow"].as_u64().unwrap_or(0) == 0 {
            sim.w.lock().unwrap().auto = Some(GOut::Ok);
        }
        let wt = match cfg["win"].as_str().unwrap() {
            "fixed" => WindowType::Fixed,
            "log" => WindowType::SlidingLog,
            _ => WindowType::SlidingCounter,
        };
        // cfg.base: start from a preset (all of its settings are overridden); cfg.ord: option order
        let b = match cfg["base"].as_u64().unwrap_or(0) {
            1 => RateLimiterLayer::per_second(7),
            2 => RateLimiterLayer::per_minute(9),
            3 => RateLimiterLayer::burst(5, 3),
            _ => RateLimiterLayer::builder(),
        };
        // cfg.subp = 1 (fixed window, sliding log): the period is given 600 us short of P ms; at millisecond instants the
        // windows are the same as with P ms - unless somebody truncates the period to whole milliseconds
        let pd = if cfg["subp"].as_u64().unwrap_or(0) == 1 { Duration::from_micros(cfg["P"].as_u64().unwrap() * 1000 - 600) } else { Duration::from_millis(cfg["P"].as_u64().unwrap()) };
        let (l, p, t) = (cfg["L"].as_u64().unwrap() as usize, pd, if cfg["T"].as_u64().unwrap() >= 1000000 { Duration::MAX } else { Duration::from_millis(cfg["T"].as_u64().unwrap()) });
        let layer = match cfg["ord"].as_u64().unwrap_or(0) {
            1 => b.window_type(wt).timeout_duration(t).refresh_period(p).limit_for_period(l).build(),
            2 => b.timeout_duration(t).limit_for_period(l).window_type(wt).refresh_period(p).name("rl").build(),
            _ => b.limit_for_period(l).refresh_period(p).timeout_duration(t).window_type(wt).build(),
        };
        // cfg.sib = 1: a second limiter built from the same layer value uses up its own window first
        self.sib.clear();
        if cfg["sib"].as_u64().unwrap_or(0) == 1 {
            let w2 = sibling_world();
            self.sib.push(sibling_traffic(layer.layer(Inner::new(&w2)), w2, l + 2));
        }
        self.svc = Some(Handles::new(layer.layer(Inner::new(&sim.w)), cfg["hm"].as_u64().unwrap_or(0)));
    }
    fn mk(&mut self, req: &Req) -> CallFut {
        let f = self.svc.as_mut().unwrap().with(|s| {
            ready_unless_parked(s);
            s.call(req.clone())
        });
        Box::pin(async move { map_res(f.await) })
    }
    fn params(&self, cfg: &Value, size: Size, rng: &mut Rng) -> DriveParams {
        let p = cfg["P"].as_u64().unwrap();
        let mut d = DriveParams::default();
        d.n = if size == Size::Quick { 6 + rng.below(6) } else { 8 + rng.below(14) };
        d.steps = if size == Size::Quick { 80 } else { 220 };
        d.horizon = if size == Size::Quick { 6 * p } else { 14 * p };
        d.w_complete = 0;
        d.w_create = 5;
        d.w_drop = 1;
        if cfg["slow"].as_u64().unwrap_or(0) == 1 {
            d.w_complete = 2;
            d.w_drop = 3;
            d.outs = vec![(GOut::Ok, 3), (GOut::Err(1), 2), (GOut::Panic, 1)];
        }
        d.max_adv = if rng.pct(30) { 2 * p + 1 } else { 2 };
        // lazy (variant "lazy", C02 only): waiters may be polled late
        d.lazy = cfg["lazy"].as_u64().unwrap_or(0) == 1;
        if d.lazy {
            d.w_adv = 6;
        }
        d
    }
    fn finale(&self, cfg: &Value) -> Vec<Value> {
        let t = cfg["T"].as_u64().unwrap().min(40);
        vec![json!({"e":"settle"}), json!({"e":"advance","d": t + 1}), json!({"e":"settle"}), json!({"e":"op","name":"end"})]
    }
    fn teardown(&mut self) {
        self.svc = None;
        self.sib.clear();
    }
}
