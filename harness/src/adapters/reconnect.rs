//! Adapter: tower-resilience-reconnect (C16)
use crate::drive::*;
use crate::sim::*;
use serde_json::{json, Value};
use std::sync::Arc;
use std::time::Duration;
use tower::{Layer, Service};
use tower_resilience_reconnect::{ConnectionState, ReconnectConfig, ReconnectLayer, ReconnectPolicy, ReconnectService};
use tower_resilience_retry::IntervalFunction;

struct Custom;
impl IntervalFunction for Custom {
    fn next_interval(&self, attempt: usize) -> Duration {
        Duration::from_millis(3 + attempt as u64)
    }
}
pub struct ReconnectAd {
    svc: Option<Handles<ReconnectService<Inner>>>,
}
impl ReconnectAd {
    pub fn new() -> Self {
        ReconnectAd { svc: None }
    }
}
impl Adapter for ReconnectAd {
    fn name(&self) -> &'static str {
        "reconnect"
    }
    fn gen_cfg(&mut self, rng: &mut Rng, _size: Size) -> Value {
        let pol = *rng.pick(&["none", "fixed", "exp", "exp", "rand", "custom"]);
        json!({"hm": rng.below(4), "max": *rng.pick(&[-1i64, 0, 1, 2, 3, 5]), "pol": pol, "b0": 1 + rng.below(3), "cap": 4 + rng.below(6),
               "retryOn": if rng.pct(80) { 1 } else { 0 }, "pred": *rng.pick(&["all", "noe2"])})
    }
    fn build(&mut self, cfg: &Value, sim: &mut Sim) {
        let u = |k: &str| cfg[k].as_u64().unwrap();
        let pol = match cfg["pol"].as_str().unwrap() {
            "none" => ReconnectPolicy::none(),
            "fixed" => ReconnectPolicy::fixed(Duration::from_millis(u("b0"))),
            "exp" => ReconnectPolicy::exponential(Duration::from_millis(u("b0")), Duration::from_millis(u("cap"))),
            "rand" => ReconnectPolicy::exponential_random(Duration::from_millis(u("b0")), Duration::from_millis(u("cap")), 0.5),
            _ => ReconnectPolicy::Custom(Arc::new(Custom)),
        };
        let mut b = ReconnectConfig::builder().policy(pol).retry_on_reconnect(u("retryOn") == 1);
        let max = cfg["max"].as_i64().unwrap();
        b = if max < 0 { b.unlimited_attempts() } else { b.max_attempts(max as u32) };
        if cfg["pred"] == "noe2" {
            b = b.reconnect_predicate(|e: &dyn std::error::Error| !e.to_string().contains("code=2 "));
        }
        let layer = ReconnectLayer::new(b.build());
        let svc = layer.layer(Inner::new(&sim.w));
        let st = svc.state().clone();
        self.svc = Some(Handles::new(svc, cfg["hm"].as_u64().unwrap_or(0)));
        sim.obs = Some(Box::new(move || {
            let mut m = Obj::new();
            m.insert("conn".into(), json!(match st.state() {
                ConnectionState::Connected => "connected",
                ConnectionState::Disconnected => "disconnected",
                ConnectionState::Reconnecting => "reconnecting",
            }));
            m
        }));
    }
    fn mk(&mut self, req: &Req) -> CallFut {
        let f = self.svc.as_mut().unwrap().with(|s| {
            ready_unless_parked(s);
            s.call(req.clone())
        });
        Box::pin(async move {
            match f.await {
                Ok(r) => Out::Ok { val: r.serial, req: r.req },
                Err(e) => {
                    // ReconnectError is not re-exported: classify by its Display text, payload through source()
                    use std::error::Error;
                    let txt = e.to_string();
                    let serial = e.source().and_then(|x| x.downcast_ref::<IErr>()).map(|x| x.serial as i64).unwrap_or(-1);
                    let kind = if let Some(rest) = txt.strip_prefix("max reconnection attempts (") {
                        format!("maxattempts:{}", rest.split(')').next().unwrap_or("?"))
                    } else if txt.starts_with("connection failed (no retry)") {
                        "noretry".to_string()
                    } else if txt.starts_with("connection failed") {
                        "connfailed".to_string()
                    } else if txt.starts_with("service error") {
                        "service".to_string()
                    } else {
                        format!("other:{}", txt)
                    };
                    Out::Err { kind, val: serial }
                }
            }
        })
    }
    fn params(&self, _cfg: &Value, size: Size, rng: &mut Rng) -> DriveParams {
        let mut p = DriveParams::default();
        p.n = if rng.pct(60) { 1 } else { 2 + rng.below(2) };
        p.steps = if size == Size::Quick { 70 } else { 200 };
        p.horizon = 120;
        p.outs = vec![(GOut::Ok, 2), (GOut::Err(1), 8), (GOut::Err(2), 1)];
        p.w_drop = if rng.pct(30) { 1 } else { 0 };
        p.max_adv = 4;
        p.spurious_pct = 4;
        p
    }
    fn teardown(&mut self) {
        self.svc = None;
    }
}
