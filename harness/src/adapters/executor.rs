//! Adapter: tower-resilience-executor (growth; transparency of C20)
use crate::drive::*;
use crate::sim::*;
use serde_json::{json, Value};
use tower::{Layer, Service};
use tower_resilience_executor::{ExecutorError, ExecutorLayer};

type Svc = <ExecutorLayer<tokio::runtime::Handle> as Layer<Inner>>::Service;
pub struct ExecutorAd {
    svc: Option<Svc>,
}
impl ExecutorAd {
    pub fn new() -> Self {
        ExecutorAd { svc: None }
    }
}
impl Adapter for ExecutorAd {
    fn name(&self) -> &'static str {
        "executor"
    }
    fn gen_cfg(&mut self, _rng: &mut Rng, _size: Size) -> Value {
        json!({"x": 0})
    }
    fn build(&mut self, _cfg: &Value, sim: &mut Sim) {
        self.svc = Some(ExecutorLayer::current().layer(Inner::new(&sim.w)));
    }
    fn mk(&mut self, req: &Req) -> CallFut {
        let mut s = self.svc.as_ref().unwrap().clone();
        let w = futures::task::noop_waker();
        let mut cx = std::task::Context::from_waker(&w);
        let _ = s.poll_ready(&mut cx);
        let f = s.call(req.clone());
        Box::pin(async move {
            match f.await {
                Ok(r) => Out::Ok { val: r.serial, req: r.req },
                Err(ExecutorError::Service(e)) => Out::Err { kind: format!("inner{}", e.code), val: e.serial as i64 },
                Err(ExecutorError::TaskCancelled) => Out::Err { kind: "taskcancelled".into(), val: -1 },
            }
        })
    }
    fn params(&self, _cfg: &Value, size: Size, rng: &mut Rng) -> DriveParams {
        let mut p = DriveParams::default();
        p.n = 3 + rng.below(if size == Size::Quick { 6 } else { 9 });
        p.steps = if size == Size::Quick { 60 } else { 140 };
        p.horizon = 5;
        p.w_drop = 2;
        p.w_adv = 1;
        p
    }
    fn finale(&self, _cfg: &Value) -> Vec<Value> {
        vec![json!({"e":"settle"}), json!({"e":"completeall","out":"ok"}), json!({"e":"settle"})]
    }
    fn teardown(&mut self) {
        self.svc = None;
    }
}
