//! Sequential scenario for C18: HealthCheckWrapper with a scripted checker under the paused clock.
use crate::drive::Size;
use crate::sim::Rng;
use serde_json::{json, Value};
use std::sync::{Arc, Mutex};
use std::time::Duration;
use tower_resilience_healthcheck::{HealthCheckConfig, HealthCheckWrapper, HealthStatus, SelectionStrategy};

use std::sync::atomic::{AtomicU64, Ordering};
use tower::Layer;
use tower_resilience_circuitbreaker::{CircuitBreakerLayer, CircuitState};
use tower_resilience_core::{HealthTriggerable, SharedHealthTrigger};

/// counting trigger (cfg.trig = 1): how often each notification arrived
#[derive(Default)]
struct CountTrigger {
    u: AtomicU64,
    h: AtomicU64,
    d: AtomicU64,
}
impl HealthTriggerable for CountTrigger {
    fn trigger_unhealthy(&self) {
        self.u.fetch_add(1, Ordering::SeqCst);
    }
    fn trigger_healthy(&self) {
        self.h.fetch_add(1, Ordering::SeqCst);
    }
    fn trigger_degraded(&self) {
        self.d.fetch_add(1, Ordering::SeqCst);
    }
}
#[derive(Clone)]
struct Nop;
impl tower::Service<u32> for Nop {
    type Response = u32;
    type Error = std::io::Error;
    type Future = std::future::Ready<Result<u32, std::io::Error>>;
    fn poll_ready(&mut self, _: &mut std::task::Context<'_>) -> std::task::Poll<Result<(), Self::Error>> {
        std::task::Poll::Ready(Ok(()))
    }
    fn call(&mut self, r: u32) -> Self::Future {
        std::future::ready(Ok(r))
    }
}
const INTERVAL: u64 = 10;
const TIMEOUT: u64 = 3;
fn st_name(s: HealthStatus) -> &'static str {
    match s {
        HealthStatus::Healthy => "healthy",
        HealthStatus::Degraded => "degraded",
        HealthStatus::Unhealthy => "unhealthy",
        HealthStatus::Unknown => "unknown",
    }
}
struct Script {
    /// per resource: the scripted results of all rounds, consumed one per check
    queue: Vec<std::collections::VecDeque<String>>,
    started: Vec<u64>,
    /// checks that ended (returned, or were cut off by the check timeout)
    done: Vec<u64>,
}
struct DoneGuard(Arc<Mutex<Script>>, usize);
impl Drop for DoneGuard {
    fn drop(&mut self) {
        if let Ok(mut g) = self.0.lock() {
            g.done[self.1] += 1;
        }
    }
}
async fn settle() {
    for _ in 0..12 {
        tokio::task::yield_now().await;
    }
}
async fn advance(ms: u64) {
    for _ in 0..ms {
        tokio::time::advance(Duration::from_millis(1)).await;
        settle().await;
    }
}
/// one run: cfg + per-round scripts + selection bursts. Rounds synchronise on the checks themselves (round k is over
/// when the k-th check of every resource has ended), so they may overrun the interval.
async fn run(cfg: &Value, rounds: &[Vec<String>], sels: &[Vec<(String, usize)>], out: &mut Vec<String>) -> usize {
    let n = cfg["n"].as_u64().unwrap() as usize;
    let tmo_ms = cfg["tmo"].as_u64().unwrap_or(TIMEOUT);
    let script = Arc::new(Mutex::new(Script {
        queue: (0..n).map(|r| rounds.iter().map(|res| res[r].clone()).collect()).collect(),
        started: vec![0; n],
        done: vec![0; n],
    }));
    let s2 = script.clone();
    let checker = move |r: &usize| {
        let r = *r;
        let x = {
            let mut g = s2.lock().unwrap();
            g.started[r] += 1;
            g.queue[r].pop_front().unwrap_or_else(|| "k".to_string())
        };
        let guard = DoneGuard(s2.clone(), r);
        async move {
            let _g = guard;
            // every check takes at least 1 ms: at most one round ends per instant
            match x.as_str() {
                "h" => { tokio::time::sleep(Duration::from_millis(1)).await; HealthStatus::Healthy }
                "d" => { tokio::time::sleep(Duration::from_millis(1)).await; HealthStatus::Degraded }
                "u" => { tokio::time::sleep(Duration::from_millis(1)).await; HealthStatus::Unhealthy }
                "k" => { tokio::time::sleep(Duration::from_millis(1)).await; HealthStatus::Unknown }
                "x" => std::future::pending::<HealthStatus>().await, // hangs: cut off by the check timeout
                "l" => {
                    // late, but 1 ms inside the (long) check timeout
                    tokio::time::sleep(Duration::from_millis(tmo_ms - 1)).await;
                    HealthStatus::Healthy
                }
                _ => {
                    // "s": slower than the (short) check timeout
                    tokio::time::sleep(Duration::from_millis(tmo_ms + 2)).await;
                    HealthStatus::Healthy
                }
            }
        }
    };
    let strat = match cfg["strat"].as_str().unwrap() {
        "rr" => SelectionStrategy::RoundRobin,
        "prefer" => SelectionStrategy::PreferHealthy,
        _ => SelectionStrategy::FirstAvailable,
    };
    // cfg.tmo: check timeout (default TIMEOUT; 12 = longer than the interval); cfg.ctor: 0 the wrapper's own
    // setters, 1 / 2 a HealthCheckConfig built separately (options in two orders) and handed over with with_config
    let tmo = Duration::from_millis(tmo_ms);
    let (ft, sth) = (cfg["ft"].as_u64().unwrap() as u32, cfg["sth"].as_u64().unwrap() as u32);
    let mut view: Option<Value> = None;
    let mut see = |c: &HealthCheckConfig| {
        // the configuration in force is the one that was set (what "timed-out check" means depends on it)
        view = Some(json!({"e":"cfgview","tmo": c.timeout().as_millis() as u64, "intv": c.interval().as_millis() as u64,
                           "delay": c.initial_delay().as_millis() as u64, "ft": c.failure_threshold(), "sth": c.success_threshold()}));
    };
    // cfg.trig = 1: a counting trigger and a real circuit breaker (its open period far longer than any run) are
    // registered; through the wrapper builder, or - for separately built configurations - through the config builder
    let trig = cfg["trig"].as_u64().unwrap_or(0) == 1;
    let counter = Arc::new(CountTrigger::default());
    let breaker = CircuitBreakerLayer::builder().wait_duration_in_open(Duration::from_secs(3600)).build().layer(Nop);
    let brk_view = breaker.clone();
    let t1: SharedHealthTrigger = counter.clone();
    let t2: SharedHealthTrigger = Arc::new(breaker);
    // a second wrapper built from a CLONE of the same separately built configuration (ctor 1 / 2): wrappers are
    // independent of each other, whatever they were configured from; it is selected from between the selections below
    let mut sib: Option<HealthCheckWrapper<usize, _>> = None;
    let mut b = match cfg["ctor"].as_u64().unwrap_or(0) {
        1 => {
            let mut cb = HealthCheckConfig::builder().interval(Duration::from_millis(INTERVAL)).initial_delay(Duration::ZERO).timeout(tmo);
            if trig {
                cb = cb.with_trigger(t1.clone()).with_trigger(t2.clone());
            }
            let c = cb.failure_threshold(ft).success_threshold(sth).selection_strategy(strat).build();
            see(&c);
            // (not with triggers registered: a cloned configuration rightly notifies the same trigger objects)
            if !trig {
                let mut sb = HealthCheckWrapper::builder().with_checker(|_r: &usize| async { HealthStatus::Healthy }).with_config(c.clone());
                for r in 0..3usize {
                    sb = sb.with_context(r, format!("s{}", r + 1));
                }
                sib = Some(sb.build());
            }
            HealthCheckWrapper::builder().with_checker(checker).with_config(c)
        }
        2 => {
            let mut cb = HealthCheckConfig::builder().selection_strategy(strat).success_threshold(sth).failure_threshold(ft).timeout(tmo)
                .initial_delay(Duration::ZERO).interval(Duration::from_millis(INTERVAL));
            if trig {
                cb = cb.with_trigger(t2.clone()).with_trigger(t1.clone());
            }
            let c = cb.build();
            see(&c);
            HealthCheckWrapper::builder().with_config(c).with_checker(checker)
        }
        3 => {
            // thresholds not set at all: the documented defaults (failure_threshold 2, success_threshold 1) apply
            let c = HealthCheckConfig::builder().interval(Duration::from_millis(INTERVAL)).initial_delay(Duration::ZERO).timeout(tmo)
                .selection_strategy(strat).build();
            see(&c);
            HealthCheckWrapper::builder().with_checker(checker).with_config(c)
        }
        _ => HealthCheckWrapper::builder()
            .with_checker(checker)
            .with_interval(Duration::from_millis(INTERVAL))
            .with_initial_delay(Duration::ZERO)
            .with_timeout(tmo)
            .with_failure_threshold(ft)
            .with_success_threshold(sth)
            .with_selection_strategy(strat),
    };
    if trig && cfg["ctor"].as_u64().unwrap_or(0) == 0 {
        b = b.with_trigger(t1.clone()).with_trigger(t2.clone());
    }
    let mut seen = (0u64, 0u64, 0u64);
    for r in 0..n {
        b = b.with_context(r, format!("r{}", r + 1));
    }
    let w = b.build();
    out.push(json!({"e":"reset","comp":"health","cfg":cfg}).to_string());
    let mut ne = 1;
    if let Some(v) = view {
        out.push(v.to_string());
        ne += 1;
    }
    w.start().await;
    if let Some(s2) = sib.as_ref() {
        s2.start().await;
    }
    settle().await;
    for (k, res) in rounds.iter().enumerate() {
        // until the k-th check of every resource has ended (bounded: a round lasts at most timeout + interval)
        let mut guard = 0;
        let mut mid_done = false;
        while script.lock().unwrap().done.iter().any(|&d| d < k as u64 + 1) && guard < 60 {
            advance(1).await;
            guard += 1;
            // in the middle of a round - some checks of it have ended, others are still running: what has ended is
            // published already (one observation per round)
            let fin: Vec<u64> = script.lock().unwrap().done.iter().map(|&d| if d >= k as u64 + 1 { 1 } else { 0 }).collect();
            if !mid_done && fin.iter().any(|&f| f == 1) && fin.iter().any(|&f| f == 0) {
                mid_done = true;
                settle().await;
                let det = w.get_health_details().await;
                out.push(json!({"e":"mid","k":k,"res":res,"fin":fin,"status": det.iter().map(|d| st_name(d.status)).collect::<Vec<_>>()}).to_string());
                ne += 1;
            }
        }
        settle().await;
        let det = w.get_health_details().await;
        let checks: Vec<u64> = {
            let g = script.lock().unwrap();
            g.done.iter().map(|&d| if d >= k as u64 + 1 { 1 } else { 0 }).collect()
        };
        let mut line = json!({"e":"round","k":k,"res":res,
            "status": det.iter().map(|d| st_name(d.status)).collect::<Vec<_>>(),
            "cf": det.iter().map(|d| d.consecutive_failures).collect::<Vec<_>>(),
            "cs": det.iter().map(|d| d.consecutive_successes).collect::<Vec<_>>(),
            "checks": checks});
        if trig {
            let now = (counter.u.load(Ordering::SeqCst), counter.h.load(Ordering::SeqCst), counter.d.load(Ordering::SeqCst));
            line["tu"] = json!(now.0 - seen.0);
            line["th"] = json!(now.1 - seen.1);
            line["td"] = json!(now.2 - seen.2);
            seen = now;
            line["brk"] = json!(match brk_view.state_sync() {
                CircuitState::Closed => "closed",
                CircuitState::Open => "open",
                CircuitState::HalfOpen => "halfopen",
            });
        }
        out.push(line.to_string());
        ne += 1;
        for (kind, m) in &sels[k] {
            for _ in 0..*m {
                if let Some(s2) = sib.as_ref() {
                    let _ = s2.get_healthy().await;
                }
                let got = if kind == "healthy" { w.get_healthy().await } else { w.get_usable().await };
                out.push(json!({"e":"sel","kind":kind,"got": got.map(|x| x + 1).unwrap_or(0)}).to_string());
                ne += 1;
            }
        }
    }
    w.stop().await;
    if let Some(s2) = sib.as_ref() {
        s2.stop().await;
    }
    ne
}
pub fn run_health(seed: u64, size: Size, out: &mut Vec<String>) -> (usize, usize) {
    let rt = tokio::runtime::Builder::new_current_thread().enable_time().start_paused(true).build().unwrap();
    let nruns = if size == Size::Quick { 150 } else { 2500 };
    let nrounds = if size == Size::Quick { 14 } else { 60 };
    let mut ne = 0;
    for i in 0..nruns {
        let mut rng = Rng::new(seed.wrapping_mul(7907).wrapping_add(i as u64));
        let n = 1 + rng.below(if size == Size::Quick { 3 } else { 5 });
        let long_tmo = rng.pct(30);
        let ctor = rng.below(4);
        // ctor 3 leaves the thresholds at their defaults
        let (ft, sth) = if ctor == 3 { (2, 1) } else { (1 + rng.below(3), 1 + rng.below(3)) };
        let cfg = json!({"n": n, "ft": ft, "sth": sth, "strat": *rng.pick(&["first", "rr", "rr", "prefer"]),
                         "tmo": if long_tmo { 12 } else { TIMEOUT }, "ctor": ctor, "trig": if ctor == 3 { 0 } else if rng.pct(50) { 1 } else { 0 }});
        // biased result alphabets so that runs of successes and failures of every length occur
        let bias = rng.below(3);
        let mut rounds = vec![];
        let mut sels = vec![];
        for _ in 0..nrounds {
            let mut res = vec![];
            for _ in 0..n {
                let x = match bias {
                    0 => *rng.pick(&["h", "h", "h", "d", "u", "k", "s"]),
                    1 => *rng.pick(&["u", "u", "s", "h", "d", "k"]),
                    _ => *rng.pick(&["h", "d", "u", "k", "s"]),
                };
                // under the longer timeout a slow check is merely late; now and then a check hangs (cut off by the timeout)
                let x = if long_tmo && x == "s" { "l" } else { x };
                let x = if rng.pct(6) { "x" } else { x };
                res.push(x.to_string());
            }
            rounds.push(res);
            let mut s = vec![];
            if rng.pct(70) {
                s.push((rng.pick(&["healthy", "usable"]).to_string(), 1 + rng.below(2 * n + 1)));
            }
            if rng.pct(30) {
                s.push((rng.pick(&["healthy", "usable"]).to_string(), 1 + rng.below(n + 1)));
            }
            sels.push(s);
        }
        ne += rt.block_on(run(&cfg, &rounds, &sels, out));
    }
    (nruns, ne)
}
/// replay: the input's reset/round/sel lines give cfg, scripts and selection bursts
pub fn replay(input: &str, out: &mut Vec<String>) -> (usize, usize) {
    let rt = tokio::runtime::Builder::new_current_thread().enable_time().start_paused(true).build().unwrap();
    let lines: Vec<Value> = input.lines().filter_map(|l| serde_json::from_str(l.trim()).ok()).collect();
    let (mut nr, mut ne) = (0, 0);
    let mut i = 0;
    while i < lines.len() {
        if lines[i]["e"] != "reset" {
            i += 1;
            continue;
        }
        let cfg = lines[i]["cfg"].clone();
        let mut rounds: Vec<Vec<String>> = vec![];
        let mut sels: Vec<Vec<(String, usize)>> = vec![];
        let mut j = i + 1;
        while j < lines.len() && lines[j]["e"] != "reset" {
            if lines[j]["e"] == "round" {
                rounds.push(lines[j]["res"].as_array().unwrap().iter().map(|x| x.as_str().unwrap().to_string()).collect());
                sels.push(vec![]);
            } else if lines[j]["e"] == "sel" {
                if let Some(s) = sels.last_mut() {
                    let kind = lines[j]["kind"].as_str().unwrap().to_string();
                    match s.last_mut() {
                        Some((k, m)) if *k == kind => *m += 1,
                        _ => s.push((kind, 1)),
                    }
                }
            }
            j += 1;
        }
        ne += rt.block_on(run(&cfg, &rounds, &sels, out));
        nr += 1;
        i = j;
    }
    (nr, ne)
}
