//! Scenario for C20 (listeners only observe): for every layer with a listener API, three
//! listeners of which every subset panics; results and per-listener delivery counts must equal
//! the run in which nobody panics.
use crate::adapters::stacks::{DynSvc, Peel};
use crate::sim::*;
use serde_json::{json, Value};
use std::sync::atomic::{AtomicU64, Ordering};
use std::sync::Arc;
use std::time::Duration;
use tower::{Layer, Service};

#[derive(Clone)]
struct L {
    cnt: Arc<Vec<AtomicU64>>,
    panics: [bool; 3],
}
impl L {
    fn hit(&self, i: usize) {
        self.cnt[i].fetch_add(1, Ordering::SeqCst);
        if self.panics[i] {
            panic!("listener {} panics", i);
        }
    }
}
struct W<S>(S);
impl<S> DynSvc for W<S>
where
    S: Service<Req, Response = Resp> + Clone + 'static,
    S::Future: 'static,
    S::Error: Peel + 'static,
{
    fn ready(&mut self) -> &'static str {
        let w = futures::task::noop_waker();
        let mut cx = std::task::Context::from_waker(&w);
        match self.0.poll_ready(&mut cx) {
            std::task::Poll::Ready(Ok(())) => "ready",
            std::task::Poll::Ready(Err(_)) => "err",
            _ => "pending",
        }
    }
    fn call(&mut self, r: Req) -> CallFut {
        let f = self.0.call(r);
        Box::pin(async move {
            match f.await {
                Ok(r) => Out::Ok { val: r.serial, req: r.req },
                Err(e) => {
                    let (kind, val) = e.peel();
                    Out::Err { kind, val }
                }
            }
        })
    }
    fn dup(&self) -> Box<dyn DynSvc> {
        Box::new(W(self.0.clone()))
    }
}
pub const LAYERS: &[&str] = &["bulkhead", "circuitbreaker", "retry", "ratelimiter", "timelimiter", "cache", "fallback", "hedge", "chaos"];
/// early = true: the listeners are registered first and every other option afterwards (a builder keeps them)
fn build(name: &str, inner: Inner, l: &L, early: bool) -> Box<dyn DynSvc> {
    let ms = Duration::from_millis;
    macro_rules! three {
        ($b:expr, $m:ident, |$($a:ident),*|) => {{
            let mut b = $b;
            for i in 0..3 {
                let l2 = l.clone();
                b = b.$m(move |$($a),*| { $(let _ = &$a;)* l2.hit(i) });
            }
            b
        }};
    }
    if early {
        return match name {
            "bulkhead" => {
                let b = three!(tower_resilience_bulkhead::BulkheadLayer::builder(), on_call_permitted, |a|);
                let b = three!(b, on_call_finished, |a|);
                let b = three!(b, on_call_failed, |a|);
                Box::new(W(b.max_wait_duration(ms(3)).max_concurrent_calls(4).name("late").build().layer(inner)))
            }
            "circuitbreaker" => {
                let b = three!(tower_resilience_circuitbreaker::CircuitBreakerLayer::builder(), on_call_permitted, |a|);
                let b = three!(b, on_success, |a|);
                let b = three!(b, on_failure, |a|);
                let b = b.failure_rate_threshold(0.5).sliding_window_size(100).name("late");
                Box::new(W(b.failure_classifier(|r: &Result<Resp, IErr>| r.is_err()).build().layer_fn(inner)))
            }
            "retry" => {
                let b = three!(tower_resilience_retry::RetryLayer::<Req, IErr>::builder(), on_retry, |a, b|);
                let b = three!(b, on_success, |a|);
                let b = three!(b, on_error, |a|);
                Box::new(W(b.max_attempts(2).backoff(tower_resilience_retry::FixedInterval::new(ms(1))).name("late").build().layer(inner)))
            }
            "ratelimiter" => {
                let b = three!(tower_resilience_ratelimiter::RateLimiterLayer::builder(), on_permit_acquired, |a|);
                Box::new(W(b.limit_for_period(100).refresh_period(ms(1000)).timeout_duration(ms(0)).name("late").build().layer(inner)))
            }
            "timelimiter" => {
                let b = three!(tower_resilience_timelimiter::TimeLimiterLayer::builder(), on_success, |a|);
                let b = three!(b, on_error, |a|);
                Box::new(W(b.cancel_running_future(true).name("late").timeout_duration(ms(100)).build().layer(inner)))
            }
            "cache" => {
                let b = three!(tower_resilience_cache::CacheLayer::<Req, u32>::builder(), on_hit, | |);
                let b = three!(b, on_miss, | |);
                Box::new(W(b.max_size(4).name("late").key_extractor(|r: &Req| r.key).build().layer(inner)))
            }
            "fallback" => {
                let b = three!(tower_resilience_fallback::FallbackLayer::<Req, Resp, IErr>::builder(), on_event, |a|);
                Box::new(W(b.name("late").value(Resp { serial: 7000, req: 0 }).build().layer(inner)))
            }
            "hedge" => {
                let mut b = tower_resilience_hedge::HedgeLayer::builder();
                for i in 0..3 {
                    let l2 = l.clone();
                    b = b.on_event(tower_resilience_core::events::FnListener::new(move |_e: &tower_resilience_hedge::HedgeEvent| l2.hit(i)));
                }
                Box::new(W(b.name("late").max_hedged_attempts(2).delay(ms(5)).build().layer(inner)))
            }
            _ => {
                let b = three!(tower_resilience_chaos::ChaosLayer::builder(), on_passed_through, | |);
                Box::new(W(b.name("late").error_rate(0.0).error_fn(|_r: &Req| IErr { code: 99, serial: 0 }).latency_rate(0.0).seed(1).build().layer(inner)))
            }
        };
    }
    match name {
        "bulkhead" => {
            let b = three!(tower_resilience_bulkhead::BulkheadLayer::builder().max_concurrent_calls(4), on_call_permitted, |a|);
            let b = three!(b, on_call_finished, |a|);
            let b = three!(b, on_call_failed, |a|);
            Box::new(W(b.build().layer(inner)))
        }
        "circuitbreaker" => {
            let b = three!(tower_resilience_circuitbreaker::CircuitBreakerLayer::builder(), on_call_permitted, |a|);
            let b = three!(b, on_success, |a|);
            let b = three!(b, on_failure, |a|);
            Box::new(W(b.build().layer_fn(inner)))
        }
        "retry" => {
            let b = three!(tower_resilience_retry::RetryLayer::<Req, IErr>::builder().max_attempts(2).backoff(tower_resilience_retry::FixedInterval::new(ms(1))), on_retry, |a, b|);
            let b = three!(b, on_success, |a|);
            let b = three!(b, on_error, |a|);
            Box::new(W(b.build().layer(inner)))
        }
        "ratelimiter" => {
            let b = three!(tower_resilience_ratelimiter::RateLimiterLayer::builder().limit_for_period(100).refresh_period(ms(1000)).timeout_duration(ms(0)), on_permit_acquired, |a|);
            Box::new(W(b.build().layer(inner)))
        }
        "timelimiter" => {
            let b = three!(tower_resilience_timelimiter::TimeLimiterLayer::builder().timeout_duration(ms(100)), on_success, |a|);
            let b = three!(b, on_error, |a|);
            Box::new(W(b.build().layer(inner)))
        }
        "cache" => {
            let b = three!(tower_resilience_cache::CacheLayer::<Req, u32>::builder().max_size(4).key_extractor(|r: &Req| r.key), on_hit, | |);
            let b = three!(b, on_miss, | |);
            Box::new(W(b.build().layer(inner)))
        }
        "fallback" => {
            let b = three!(tower_resilience_fallback::FallbackLayer::<Req, Resp, IErr>::builder().value(Resp { serial: 7000, req: 0 }), on_event, |a|);
            Box::new(W(b.build().layer(inner)))
        }
        "hedge" => {
            let mut b = tower_resilience_hedge::HedgeLayer::builder().max_hedged_attempts(2).delay(ms(5));
            for i in 0..3 {
                let l2 = l.clone();
                b = b.on_event(tower_resilience_core::events::FnListener::new(move |_e: &tower_resilience_hedge::HedgeEvent| l2.hit(i)));
            }
            Box::new(W(b.build().layer(inner)))
        }
        _ => {
            let b = three!(tower_resilience_chaos::ChaosLayer::builder().error_rate(0.0).error_fn(|_r: &Req| IErr { code: 99, serial: 0 }).latency_rate(0.0).seed(1), on_passed_through, | |);
            Box::new(W(b.build().layer(inner)))
        }
    }
}
/// fixed scenario: requests ok, err, ok, (same key as the first: cache hit), err
async fn scenario(name: &str, panics: [bool; 3], early: bool) -> (Vec<u64>, Vec<String>) {
    let l = L { cnt: Arc::new((0..3).map(|_| AtomicU64::new(0)).collect()), panics };
    let mut sim = Sim::new();
    sim.reset("listeners", &json!({}), 0, 0);
    let mut svc = build(name, Inner::new(&sim.w), &l, early);
    let mut results = vec![];
    for (c, key, out) in [(1usize, 1u32, "ok"), (2, 2, "e1"), (3, 3, "ok"), (4, 1, "ok"), (5, 5, "e1")] {
        svc.ready();
        let mut s2 = svc.dup();
        s2.ready();
        sim.create(c, Req { id: c as u32, key }, &mut |r| s2.call(r.clone())).await;
        let mut res = String::from("unresolved");
        for _round in 0..8 {
            for cc in sim.needs_poll() {
                if let PollRes::Ready(o) = sim.poll(cc).await {
                    res = match o {
                        Out::Ok { val, req } => format!("ok:{}:{}", if val >= 7000 { val } else { 0 }, req),
                        Out::Err { kind, .. } => format!("err:{}", kind),
                    };
                } else if cc == c && !sim.callers.contains_key(&cc) {
                    res = "panic".into();
                }
            }
            if !sim.callers.contains_key(&c) {
                break;
            }
            let pend = sim.w.lock().unwrap().pending_gates();
            if pend.is_empty() {
                sim.advance(6).await;
            } else {
                for i in pend {
                    sim.complete(i, GOut::parse(out)).await;
                }
            }
        }
        results.push(res);
    }
    (l.cnt.iter().map(|x| x.load(Ordering::SeqCst)).collect(), results)
}
pub fn run_listeners(out: &mut Vec<String>) -> (usize, usize) {
    let rt = tokio::runtime::Builder::new_current_thread().enable_time().start_paused(true).build().unwrap();
    let mut ne = 0;
    for name in LAYERS {
        out.push(json!({"e":"reset","comp":"listeners","cfg":{"layer":name}}).to_string());
        ne += 1;
        // masks 8..15: the same subsets with the listeners registered before every other option
        for mask in 0..16u32 {
            let p = [mask & 1 != 0, mask & 2 != 0, mask & 4 != 0];
            let (cnt, res) = rt.block_on(scenario(name, p, mask & 8 != 0));
            out.push(json!({"e":"lrun","layer":name,"mask":mask,"counts":cnt,"results":res}).to_string());
            ne += 1;
        }
    }
    (LAYERS.len(), ne)
}
#[allow(dead_code)]
fn _unused(_: Value) {}
