//! Adapter: tower-resilience-cache (C10): two services, private or shared store
use crate::drive::*;
use crate::sim::*;
use serde_json::{json, Value};
use std::sync::atomic::{AtomicU64, Ordering};
use std::sync::Arc;
use std::time::Duration;
use tower::{Layer, Service};
use tower_resilience_cache::{Cache, CacheError, CacheLayer, EvictionPolicy, SharedCacheLayer};

type Svc = Cache<Inner, Req, CKey, Resp>;
pub struct CacheAd {
    svcs: Vec<Svc>,
    nkeys: u32,
}
impl CacheAd {
    pub fn new() -> Self {
        CacheAd { svcs: vec![], nkeys: 3 }
    }
}
impl Adapter for CacheAd {
    fn name(&self) -> &'static str {
        "cache"
    }
    fn gen_cfg(&mut self, rng: &mut Rng, size: Size) -> Value {
        if rng.pct(4) {
            // directed history (see script): an entry expires, its refresh fails, the store fills up, the key comes back
            return json!({"max": 2, "ttl": 2, "pol": *rng.pick(&["lfu", "lfu", "lru", "fifo"]), "shared": 0, "nkeys": 3, "ctor": 0, "dir": 1});
        }
        let nk = if size == Size::Quick { 3 + rng.below(4) } else { 4 + rng.below(9) };
        json!({"max": 1 + rng.below(nk.min(6)), "ttl": *rng.pick(&[-1i64, -1, 2, 5, 9, 2, 5, 9, 1000000]), "pol": *rng.pick(&["lru", "lfu", "fifo"]), "shared": rng.below(2), "nkeys": nk, "ctor": rng.below(2)})
    }
    fn build(&mut self, cfg: &Value, sim: &mut Sim) {
        let max = cfg["max"].as_u64().unwrap() as usize;
        let ttl = cfg["ttl"].as_i64().unwrap();
        self.nkeys = cfg["nkeys"].as_u64().unwrap_or(3) as u32;
        let pol = match cfg["pol"].as_str().unwrap() {
            "lru" => EvictionPolicy::Lru,
            "lfu" => EvictionPolicy::Lfu,
            _ => EvictionPolicy::Fifo,
        };
        let inner = Inner::new(&sim.w);
        let cnt: Arc<[AtomicU64; 3]> = Arc::new([AtomicU64::new(0), AtomicU64::new(0), AtomicU64::new(0)]);
        let (h, m, e) = (cnt.clone(), cnt.clone(), cnt.clone());
        let (h2, m2, e2) = (cnt.clone(), cnt.clone(), cnt.clone());
        if cfg["shared"].as_u64().unwrap() == 1 && cfg["ctor"].as_u64().unwrap_or(0) == 1 {
            // the other way to a shared store: CacheLayer::shared()
            let (h3, m3, e3) = (cnt.clone(), cnt.clone(), cnt.clone());
            let mut b = CacheLayer::<Req, CKey>::builder().max_size(max).eviction_policy(pol).key_extractor(|r: &Req| CKey(r.key))
                .on_hit(move || { h3[0].fetch_add(1, Ordering::SeqCst); }).on_miss(move || { m3[1].fetch_add(1, Ordering::SeqCst); }).on_eviction(move || { e3[2].fetch_add(1, Ordering::SeqCst); });
            if ttl >= 0 {
                b = b.ttl(if ttl >= 1000000 { Duration::MAX } else { Duration::from_millis(ttl as u64) });
            }
            let layer = b.build().shared::<Resp>();
            self.svcs = vec![layer.layer(inner.clone()), layer.layer(inner)];
        } else if cfg["shared"].as_u64().unwrap() == 1 {
            let mut b = SharedCacheLayer::<Req, CKey, Resp>::builder().max_size(max).eviction_policy(pol).key_extractor(|r: &Req| CKey(r.key))
                .on_hit(move || { h[0].fetch_add(1, Ordering::SeqCst); }).on_miss(move || { m[1].fetch_add(1, Ordering::SeqCst); }).on_eviction(move || { e[2].fetch_add(1, Ordering::SeqCst); });
            if ttl >= 0 {
                b = b.ttl(if ttl >= 1000000 { Duration::MAX } else { Duration::from_millis(ttl as u64) });
            }
            let layer = b.build();
            self.svcs = vec![layer.layer(inner.clone()), layer.layer(inner)];
        } else if cfg["shared"].as_u64().unwrap() == 2 {
            unreachable!()
        } else {
            let mut b = CacheLayer::<Req, CKey>::builder().max_size(max).eviction_policy(pol).key_extractor(|r: &Req| CKey(r.key))
                .on_hit(move || { h2[0].fetch_add(1, Ordering::SeqCst); }).on_miss(move || { m2[1].fetch_add(1, Ordering::SeqCst); }).on_eviction(move || { e2[2].fetch_add(1, Ordering::SeqCst); });
            if ttl >= 0 {
                b = b.ttl(if ttl >= 1000000 { Duration::MAX } else { Duration::from_millis(ttl as u64) });
            }
            let layer = b.build();
            self.svcs = vec![layer.layer(inner.clone()), layer.layer(inner)];
        }
        sim.obs = Some(Box::new(move || {
            let mut o = Obj::new();
            o.insert("lis".into(), json!({"hit": cnt[0].load(Ordering::SeqCst), "miss": cnt[1].load(Ordering::SeqCst), "evict": cnt[2].load(Ordering::SeqCst)}));
            o
        }));
    }
    fn mk(&mut self, req: &Req) -> CallFut {
        // service of caller c: index c % 2 (the spec's store 1 + c % 2 when stores are private)
        let s = &mut self.svcs[(req.id % 2) as usize];
        let w = futures::task::noop_waker();
        let mut cx = std::task::Context::from_waker(&w);
        let _ = s.poll_ready(&mut cx);
        let f = s.call(req.clone());
        Box::pin(async move {
            match f.await {
                Ok(r) => Out::Ok { val: r.serial, req: r.req },
                Err(CacheError::Inner(e)) => Out::Err { kind: format!("inner{}", e.code), val: e.serial as i64 },
            }
        })
    }
    fn params(&self, cfg: &Value, size: Size, rng: &mut Rng) -> DriveParams {
        let mut p = DriveParams::default();
        p.n = if size == Size::Quick { 14 + rng.below(12) } else { 25 + rng.below(15) };
        p.keys = cfg["nkeys"].as_u64().unwrap_or(3) as u32;
        p.steps = if size == Size::Quick { 110 } else { 260 };
        p.horizon = 60;
        p.outs = vec![(GOut::Ok, 8), (GOut::Err(1), 2)];
        p.w_drop = if rng.pct(30) { 1 } else { 0 };
        p.w_create = 6;
        p.w_complete = 6;
        p.w_adv = 2;
        p.max_adv = 3;
        p.spurious_pct = 1;
        p
    }
    fn script(&mut self, cfg: &Value, _size: Size, rng: &mut Rng) -> Option<Vec<Value>> {
        if cfg["dir"].as_u64().unwrap_or(0) != 1 {
            return None;
        }
        // even caller ids: one service (one store). Key a expires, its refresh fails; b and c fill the store and are
        // used once more each; then a is fetched again and has to displace one of them.
        let (a, b, c) = match rng.below(3) {
            0 => (1, 2, 3),
            1 => (2, 3, 1),
            _ => (3, 1, 2),
        };
        let mut v = vec![];
        let mut id = 2;
        let mut fetch = |v: &mut Vec<Value>, key: u64, out: Option<&str>| {
            v.push(json!({"e":"create","c":id,"key":key}));
            if let Some(o) = out {
                v.push(json!({"e":"complete","c":id,"out":o}));
            }
            v.push(json!({"e":"poll","c":id}));
            id += 2;
        };
        fetch(&mut v, a, Some("ok"));
        v.push(json!({"e":"advance","d":3}));
        fetch(&mut v, a, Some("e1"));
        fetch(&mut v, b, Some("ok"));
        fetch(&mut v, b, None);
        fetch(&mut v, c, Some("ok"));
        fetch(&mut v, c, None);
        fetch(&mut v, a, Some("ok"));
        Some(v)
    }
    fn finale(&self, cfg: &Value) -> Vec<Value> {
        // probe sweep: every key once per service with the inner service failing (nothing is inserted)
        let nk = cfg["nkeys"].as_u64().unwrap_or(3);
        let mut v = vec![json!({"e":"settle"}), json!({"e":"completeall","out":"e1"}), json!({"e":"settle"})];
        let mut c = 101u64;
        for k in 1..=nk {
            for _svc in 0..2 {
                v.push(json!({"e":"create","c":c,"key":k}));
                v.push(json!({"e":"complete","c":c,"out":"e1","probe":true}));
                v.push(json!({"e":"poll","c":c}));
                c += 1;
            }
        }
        v
    }
    fn teardown(&mut self) {
        self.svcs.clear();
    }
}
