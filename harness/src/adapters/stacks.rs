//! Adapter for C20 (transparency + Tower readiness): every middleware in a non-triggering
//! configuration, and stacks of them, over a strict contract-checking inner service
//! (instances, readiness per instance) or over tower's ConcurrencyLimit.
use crate::drive::*;
use crate::sim::*;
use futures::future::BoxFuture;
use serde_json::{json, Value};
use std::task::Poll;
use std::time::Duration;
use tower::limit::ConcurrencyLimit;
use tower::{Layer, Service};

/// peel pass-through error variants down to the inner service's error
pub trait Peel {
    fn peel(self) -> (String, i64);
}
impl Peel for IErr {
    fn peel(self) -> (String, i64) {
        (format!("inner{}", self.code), self.serial as i64)
    }
}
macro_rules! peel {
    ($t:ty, $pass:path, $own:expr) => {
        impl<E: Peel> Peel for $t {
            fn peel(self) -> (String, i64) {
                match self {
                    $pass(e) => e.peel(),
                    #[allow(unreachable_patterns)]
                    _ => ($own.to_string(), -1),
                }
            }
        }
    };
}
peel!(tower_resilience_bulkhead::BulkheadServiceError<E>, tower_resilience_bulkhead::BulkheadServiceError::Inner, "bulkhead");
peel!(tower_resilience_ratelimiter::RateLimiterServiceError<E>, tower_resilience_ratelimiter::RateLimiterServiceError::Inner, "ratelimited");
peel!(tower_resilience_circuitbreaker::CircuitBreakerError<E>, tower_resilience_circuitbreaker::CircuitBreakerError::Inner, "open");
peel!(tower_resilience_timelimiter::TimeLimiterError<E>, tower_resilience_timelimiter::TimeLimiterError::Inner, "timeout");
peel!(tower_resilience_cache::CacheError<E>, tower_resilience_cache::CacheError::Inner, "cache");
peel!(tower_resilience_fallback::FallbackError<E>, tower_resilience_fallback::FallbackError::Inner, "fbfailed");
peel!(tower_resilience_hedge::HedgeError<E>, tower_resilience_hedge::HedgeError::Inner, "allfailed");
peel!(tower_resilience_adaptive::AdaptiveError<E>, tower_resilience_adaptive::AdaptiveError::Service, "limit");
peel!(tower_resilience_coalesce::CoalesceError<E>, tower_resilience_coalesce::CoalesceError::Service, "cancelled");
peel!(tower_resilience_executor::ExecutorError<E>, tower_resilience_executor::ExecutorError::Service, "taskcancelled");

pub trait DynSvc {
    fn ready(&mut self) -> &'static str;
    fn call(&mut self, r: Req) -> CallFut;
    fn dup(&self) -> Box<dyn DynSvc>;
}
struct W<S>(S);
impl<S> DynSvc for W<S>
where
    S: Service<Req, Response = Resp> + Clone + 'static,
    S::Future: 'static,
    S::Error: 'static,
    ErrOf<S>: PeelAny,
{
    fn ready(&mut self) -> &'static str {
        let w = futures::task::noop_waker();
        let mut cx = std::task::Context::from_waker(&w);
        match self.0.poll_ready(&mut cx) {
            Poll::Ready(Ok(())) => "ready",
            Poll::Ready(Err(_)) => "err",
            Poll::Pending => "pending",
        }
    }
    fn call(&mut self, r: Req) -> CallFut {
        let f = self.0.call(r);
        keep_alive(f, |res: Result<Resp, S::Error>| match res {
            Ok(r) => Out::Ok { val: r.serial, req: r.req },
            Err(e) => {
                let (kind, val) = ErrOf::<S>(e).peel_any();
                Out::Err { kind, val }
            }
        })
    }
    fn dup(&self) -> Box<dyn DynSvc> {
        Box::new(W(self.0.clone()))
    }
}
/// newtype so that reconnect's unnameable error type (and retry's plain E) can be peeled too
pub struct ErrOf<S: Service<Req>>(S::Error);
pub trait PeelAny {
    fn peel_any(self) -> (String, i64);
}
impl<S: Service<Req>> PeelAny for ErrOf<S>
where
    S::Error: MaybePeel,
{
    fn peel_any(self) -> (String, i64) {
        self.0.maybe_peel()
    }
}
pub trait MaybePeel {
    fn maybe_peel(self) -> (String, i64);
}
impl<E: Peel> MaybePeel for E {
    fn maybe_peel(self) -> (String, i64) {
        self.peel()
    }
}
fn wrap<S>(s: S) -> Box<dyn DynSvc>
where
    S: Service<Req, Response = Resp> + Clone + 'static,
    S::Future: 'static,
    S::Error: Peel + 'static,
{
    Box::new(W(s))
}
/// reconnect's error type is private: peel through Display text and source()
struct RcW<S>(S);
impl<S> DynSvc for RcW<S>
where
    S: Service<Req, Response = Resp> + Clone + 'static,
    S::Future: 'static,
    S::Error: std::error::Error + 'static,
{
    fn ready(&mut self) -> &'static str {
        let w = futures::task::noop_waker();
        let mut cx = std::task::Context::from_waker(&w);
        match self.0.poll_ready(&mut cx) {
            Poll::Ready(Ok(())) => "ready",
            Poll::Ready(Err(_)) => "err",
            Poll::Pending => "pending",
        }
    }
    fn call(&mut self, r: Req) -> CallFut {
        let f = self.0.call(r);
        keep_alive(f, |res: Result<Resp, S::Error>| match res {
            Ok(r) => Out::Ok { val: r.serial, req: r.req },
            Err(e) => {
                use std::error::Error;
                let txt = e.to_string();
                match e.source().and_then(|x| x.downcast_ref::<IErr>()) {
                    Some(ie) if txt.starts_with("service error") => Out::Err { kind: format!("inner{}", ie.code), val: ie.serial as i64 },
                    Some(ie) => Out::Err { kind: format!("reconnect:{}", txt.split(':').next().unwrap_or("")), val: ie.serial as i64 },
                    None => Out::Err { kind: "reconnect".into(), val: -1 },
                }
            }
        })
    }
    fn dup(&self) -> Box<dyn DynSvc> {
        Box::new(RcW(self.0.clone()))
    }
}

pub const LAYERS: &[&str] = &[
    "bulkhead", "ratelimiter", "circuitbreaker", "cbfallback", "retry", "timelimiter", "timelimiter_bg", "cache", "fallback", "hedge", "reconnect",
    "adaptive", "coalesce", "executor", "chaos", "stackA", "stackB", "stackD", "stackE",
];
/// 0: exactly one inner call per request; 1: more only after an inner failure (retry, reconnect);
/// 2: more at any time, up to the configured number of attempts (hedging)
pub fn multi(name: &str) -> u64 {
    match name {
        "hedge" | "stackD" => 2,
        "retry" | "reconnect" | "stackA" | "stackE" => 1,
        _ => 0,
    }
}
fn keyfn(r: &Req) -> u32 {
    r.id
}
fn build<I>(name: &str, v: u64, inner: I) -> Box<dyn DynSvc>
where
    I: Service<Req, Response = Resp, Error = IErr> + Clone + Send + Sync + 'static,
    I::Future: Send + 'static,
{
    use tower_resilience_adaptive::{AdaptiveLimiterLayer, Aimd, Algorithm};
    use tower_resilience_bulkhead::BulkheadLayer;
    use tower_resilience_cache::CacheLayer;
    use tower_resilience_chaos::ChaosLayer;
    use tower_resilience_circuitbreaker::CircuitBreakerLayer;
    use tower_resilience_coalesce::CoalesceLayer;
    use tower_resilience_executor::ExecutorLayer;
    use tower_resilience_fallback::FallbackLayer;
    use tower_resilience_hedge::HedgeLayer;
    use tower_resilience_ratelimiter::RateLimiterLayer;
    use tower_resilience_reconnect::{ReconnectConfig, ReconnectLayer, ReconnectPolicy};
    use tower_resilience_retry::{FixedInterval, RetryLayer};
    use tower_resilience_timelimiter::TimeLimiterLayer;
    let ms = Duration::from_millis;
    let tl = || TimeLimiterLayer::builder().timeout_duration(ms(1000)).build();
    let retry = || RetryLayer::<Req, IErr>::builder().max_attempts(3).backoff(FixedInterval::new(ms(1))).build();
    let aimd = || Algorithm::Aimd(Aimd::builder().initial_limit(10).min_limit(10).max_limit(10).build());
    use tower_resilience_cache::{EvictionPolicy, SharedCacheLayer};
    use tower_resilience_circuitbreaker::SlidingWindowType;
    use tower_resilience_ratelimiter::WindowType;
    use tower_resilience_retry::{ExponentialBackoff, RetryBudget, TokenBucketBudget};
    let _ = FixedInterval::new(ms(1));
    // every middleware in several non-triggering configurations (v = variant)
    match name {
        "bulkhead" => match v {
            0 => wrap(BulkheadLayer::builder().max_concurrent_calls(10).build().layer(inner)),
            1 => wrap(BulkheadLayer::builder().max_concurrent_calls(10).max_wait_duration(ms(50)).build().layer(inner)),
            _ => wrap(BulkheadLayer::builder().max_concurrent_calls(10).reject_when_full().build().layer(inner)),
        },
        "ratelimiter" => {
            let wt = match v { 0 => WindowType::Fixed, 1 => WindowType::SlidingLog, _ => WindowType::SlidingCounter };
            wrap(RateLimiterLayer::builder().limit_for_period(1000).refresh_period(ms(1000)).timeout_duration(ms(if v == 1 { 5 } else { 0 })).window_type(wt).build().layer(inner))
        }
        "circuitbreaker" => match v {
            0 => wrap(CircuitBreakerLayer::builder().build().layer_fn(inner)),
            1 => wrap(CircuitBreakerLayer::builder().sliding_window_type(SlidingWindowType::TimeBased).sliding_window_duration(ms(100)).minimum_number_of_calls(50).build().layer_fn(inner)),
            _ => wrap(CircuitBreakerLayer::builder().failure_classifier(|r: &Result<Resp, IErr>| matches!(r, Err(e) if e.code > 50)).slow_call_duration_threshold(ms(500)).build().layer_fn(inner)),
        },
        "cbfallback" => wrap(CircuitBreakerLayer::builder().build().layer_fn(inner).with_fallback(|r: Req| -> BoxFuture<'static, Result<Resp, IErr>> {
            Box::pin(async move { Ok(Resp { serial: 9000 + r.id as u64, req: r.id }) })
        })),
        "retry" => match v {
            0 => wrap(retry().layer(inner)),
            1 => {
                let b: std::sync::Arc<dyn RetryBudget> = std::sync::Arc::new(TokenBucketBudget::new(0.0, 10, 10));
                wrap(RetryLayer::<Req, IErr>::builder().max_attempts(3).backoff(ExponentialBackoff::new(ms(1)).max_interval(ms(2))).budget(b).build().layer(inner))
            }
            // a call that is not retried (a single attempt; an error the predicate refuses) comes back unchanged, and the
            // wrapped service's readiness - which may have failed by then - is not the retry layer's business any more
            3 => wrap(RetryLayer::<Req, IErr>::builder().max_attempts(1).fixed_backoff(ms(1)).build().layer(inner)),
            4 => wrap(RetryLayer::<Req, IErr>::builder().max_attempts(3).fixed_backoff(ms(1)).retry_on(|e: &IErr| e.code == 2).build().layer(inner)),
            _ => wrap(RetryLayer::<Req, IErr>::builder().max_attempts_fn(|_r: &Req| 3).fixed_backoff(ms(1)).retry_on(|e: &IErr| e.code == 1).build().layer(inner)),
        },
        "timelimiter" => match v {
            0 => wrap(tl().layer(inner)),
            // an unbounded timeout
            2 => wrap(TimeLimiterLayer::builder().timeout_duration(Duration::MAX).build().layer(inner)),
            3 => wrap(TimeLimiterLayer::builder().timeout_fn(|_r: &Req| Duration::MAX).cancel_running_future(false).build().layer(inner)),
            _ => wrap(TimeLimiterLayer::builder().timeout_fn(|_r: &Req| Duration::from_millis(1000)).build().layer(inner)),
        },
        "timelimiter_bg" => match v {
            0 => wrap(TimeLimiterLayer::builder().timeout_duration(ms(1000)).cancel_running_future(false).build().layer(inner)),
            _ => wrap(TimeLimiterLayer::builder().cancel_running_future(false).timeout_fn(|_r: &Req| Duration::from_millis(1000)).build().layer(inner)),
        },
        "cache" => match v {
            0 => wrap(CacheLayer::<Req, u32>::builder().max_size(10).key_extractor(|r: &Req| r.id).build().layer(inner)),
            1 => wrap(CacheLayer::<Req, u32>::builder().max_size(2).eviction_policy(EvictionPolicy::Lfu).ttl(ms(1)).key_extractor(|r: &Req| r.id).build().layer(inner)),
            _ => wrap(SharedCacheLayer::<Req, u32, Resp>::builder().max_size(2).eviction_policy(EvictionPolicy::Fifo).key_extractor(|r: &Req| r.id).build().layer(inner)),
        },
        // every strategy, with a predicate that refuses every error: the protective condition is never triggered
        "fallback" => {
            let b = FallbackLayer::<Req, Resp, IErr>::builder();
            let b = match v {
                0 => b.value(Resp { serial: 7000, req: 0 }),
                1 => b.value_fn(|| Resp { serial: 7100, req: 0 }),
                2 => b.from_error(|e: &IErr| Resp { serial: 7200, req: e.serial as u32 }),
                3 => b.from_request_error(|r: &Req, _e: &IErr| Resp { serial: 7300, req: r.id }),
                4 => b.service(|r: Req| -> BoxFuture<'static, Result<Resp, IErr>> { Box::pin(async move { Ok(Resp { serial: 7400, req: r.id }) }) }),
                _ => b.exception(|e: IErr| IErr { code: e.code + 50, serial: e.serial }),
            };
            wrap(b.handle(|_e: &IErr| false).build().layer(inner))
        }
        "hedge" => match v {
            0 => wrap(HedgeLayer::builder().max_hedged_attempts(2).delay(ms(5)).build().layer(inner)),
            1 => wrap(HedgeLayer::builder().max_hedged_attempts(3).no_delay().build().layer(inner)),
            _ => wrap(HedgeLayer::builder().max_hedged_attempts(3).delay_fn(|k| Duration::from_millis(if k == 1 { 5 } else { 3 })).build().layer(inner)),
        },
        "reconnect" => {
            let pol = match v { 0 => ReconnectPolicy::fixed(ms(1)), 1 => ReconnectPolicy::exponential(ms(1), ms(2)), _ => ReconnectPolicy::exponential_random(ms(1), ms(2), 0.5) };
            Box::new(RcW(ReconnectLayer::new(ReconnectConfig::builder().policy(pol).max_attempts(2).build()).layer(inner)))
        }
        "adaptive" => match v {
            0 => wrap(AdaptiveLimiterLayer::new(aimd()).layer(inner)),
            _ => wrap(AdaptiveLimiterLayer::new(Algorithm::Vegas(tower_resilience_adaptive::Vegas::builder().initial_limit(10).min_limit(10).max_limit(10).build())).layer(inner)),
        },
        "coalesce" => {
            let l: CoalesceLayer<u32, Req, fn(&Req) -> u32> = CoalesceLayer::new(keyfn as fn(&Req) -> u32);
            wrap(l.layer(inner))
        }
        "executor" => wrap(ExecutorLayer::current().layer(inner)),
        "chaos" => match v {
            0 => wrap(ChaosLayer::builder().error_rate(0.0).error_fn(|_r: &Req| IErr { code: 99, serial: 0 }).latency_rate(0.0).seed(7).build().layer(inner)),
            _ => wrap(ChaosLayer::builder().latency_rate(0.0).build().layer(inner)),
        },
        // stacks of the composition guide that type-check as services
        "stackA" => wrap(tl().layer(retry().layer(inner))),
        "stackB" => wrap(tl().layer(CircuitBreakerLayer::builder().build().layer_fn(BulkheadLayer::builder().max_concurrent_calls(10).build().layer(inner)))),
        "stackD" => wrap(tl().layer(HedgeLayer::builder().max_hedged_attempts(2).delay(ms(5)).build().layer(inner))),
        _ => wrap(tl().layer(AdaptiveLimiterLayer::new(aimd()).layer(retry().layer(inner)))),
    }
}

pub struct StacksAd {
    cur: Option<Box<dyn DynSvc>>,
}
impl StacksAd {
    pub fn new() -> Self {
        StacksAd { cur: None }
    }
}
impl Adapter for StacksAd {
    fn name(&self) -> &'static str {
        "stacks"
    }
    fn gen_cfg(&mut self, rng: &mut Rng, _size: Size) -> Value {
        let l = *rng.pick(LAYERS);
        let v = rng.below(6);
        // retry variants 3 and 4 never retry the failures of these runs (code 1)
        let noretry = if l == "retry" && (v == 3 || v == 4) { 1 } else { 0 };
        json!({"layer": l, "v": v, "inner": *rng.pick(&["strict", "strict", "climit"]), "retries": multi(l), "slow": rng.below(2), "noretry": noretry})
    }
    fn build(&mut self, cfg: &Value, sim: &mut Sim) {
        sim.w.lock().unwrap().track_inst = true;
        sim.hold_finished = true;
        let name = cfg["layer"].as_str().unwrap();
        let inner = Inner::new(&sim.w);
        let v = cfg["v"].as_u64().unwrap_or(0);
        self.cur = Some(if cfg["inner"] == "climit" { build(name, v, ConcurrencyLimit::new(inner, 10)) } else { build(name, v, inner) });
    }
    fn mk(&mut self, req: &Req) -> CallFut {
        // the instance the environment drove to readiness is the one that is called
        self.cur.as_mut().unwrap().call(req.clone())
    }
    fn op(&mut self, name: &str, ev: &Value, sim: &mut Sim) -> (Value, Obj) {
        match name {
            "script" => {
                let v: Vec<ReadyAns> = ev["ans"].as_array().map(|a| a.iter().map(|x| match x.as_str().unwrap_or("ready") {
                    "pending" => ReadyAns::Pending,
                    "err" => ReadyAns::Err(7),
                    _ => ReadyAns::Ready,
                }).collect()).unwrap_or_default();
                sim.w.lock().unwrap().ready_script = v;
                (json!("ok"), Obj::new())
            }
            "ready" => (json!(self.cur.as_mut().unwrap().ready()), Obj::new()),
            "clone" => {
                let d = self.cur.as_ref().unwrap().dup();
                self.cur = Some(d);
                (json!("ok"), Obj::new())
            }
            _ => (Value::Null, Obj::new()),
        }
    }
    fn params(&self, _cfg: &Value, _size: Size, _rng: &mut Rng) -> DriveParams {
        DriveParams::default()
    }
    fn script(&mut self, cfg: &Value, _size: Size, rng: &mut Rng) -> Option<Vec<Value>> {
        let mut v = vec![];
        let ready_until = |v: &mut Vec<Value>| {
            // drive the outer service to readiness the way a Tower caller does
            v.push(json!({"e":"op","name":"ready"}));
        };
        let strict = cfg["inner"] == "strict";
        let n = 3 + rng.below(3);
        for c in 1..=n {
            if strict && rng.pct(40) {
                v.push(json!({"e":"op","name":"script","ans":["pending","ready","ready","ready","ready"]}));
                ready_until(&mut v); // pending
            }
            ready_until(&mut v);
            v.push(json!({"e":"create","c":c,"key":10 + c}));
            v.push(json!({"e":"settle"}));
            if cfg["slow"].as_u64().unwrap_or(0) == 1 && rng.pct(60) {
                // a slow inner call: hedges fire, timers of the layers run
                v.push(json!({"e":"advance","d":6}));
                v.push(json!({"e":"settle"}));
            }
            let fail = rng.pct(35);
            let rdy_err = fail && strict && cfg["retries"].as_u64().unwrap_or(0) == 1 && rng.pct(35);
            if rdy_err {
                // the inner service fails readiness when the layer re-polls it before its retry
                v.push(json!({"e":"op","name":"script","ans":["err"]}));
            }
            v.push(json!({"e":"completeall","out": if fail { "e1" } else { "ok" }}));
            v.push(json!({"e":"settle"}));
            if fail {
                // retrying layers wait for their backoff / hedge delay and call again
                // (now and then the first retry fails as well: the second retry has to observe readiness again)
                let twice = rng.pct(40);
                for k in 0..3 {
                    v.push(json!({"e":"advance","d":6}));
                    v.push(json!({"e":"settle"}));
                    v.push(json!({"e":"completeall","out": if twice && k == 0 { "e1" } else { "ok" }}));
                    v.push(json!({"e":"settle"}));
                }
            }
            if rdy_err {
                // whatever is left of the script must not leak into the next request
                v.push(json!({"e":"op","name":"script","ans":[]}));
            }
            if rng.pct(30) {
                v.push(json!({"e":"op","name":"clone"}));
            }
        }
        if strict {
            v.push(json!({"e":"op","name":"script","ans":["err"]}));
            ready_until(&mut v);
        }
        v.push(json!({"e":"dropall"}));
        v.push(json!({"e":"op","name":"end"}));
        Some(v)
    }
    fn teardown(&mut self) {
        self.cur = None;
    }
}
