//! Adapter for C20 (transparency + Tower readiness): every middleware in a non-triggering
//! configuration, and stacks of them, over a strict contract-checking inner service
//! (instances, readiness per instance) or over tower's ConcurrencyLimit.
use crate::drive::*;
use crate::sim::*;
use futures::future::BoxFuture;
use serde_json::{json, Value};
use std::task::Poll;
use std::time::Duration;
use tower::limit::ConcurrencyLimit;
use tower::{Layer, Service};

/// peel pass-through error variants down to the inner service's error
pub trait Peel {
    fn peel(self) -> (String, i64);
}
impl Peel for IErr {
    fn peel(self) -> (String, i64) {
        (format!("inner{}", self.code), self.serial as i64)
    }
}
macro_rules! peel {
    ($t:ty, $pass:path, $own:expr) => {
        impl<E: Peel> Peel for $t {
            fn peel(self) -> (String, i64) {
                match self {
                    $pass(e) => e.peel(),
                    #[allow(unreachable_patterns)]
                    _ => ($own.to_string(), -1),
                }
            }
        }
    };
}
peel!(tower_resilience_bulkhead::BulkheadServiceError<E>, tower_resilience_bulkhead::BulkheadServiceError::Inner, "bulkhead");
peel!(tower_resilience_ratelimiter::RateLimiterServiceError<E>, tower_resilience_ratelimiter::RateLimiterServiceError::Inner, "ratelimited");
peel!(tower_resilience_circuitbreaker::CircuitBreakerError<E>, tower_resilience_circuitbreaker::CircuitBreakerError::Inner, "open");
peel!(tower_resilience_timelimiter::TimeLimiterError<E>, tower_resilience_timelimiter::TimeLimiterError::Inner, "timeout");
peel!(tower_resilience_cache::CacheError<E>, tower_resilience_cache::CacheError::Inner, "cache");
peel!(tower_resilience_fallback::FallbackError<E>, tower_resilience_fallback::FallbackError::Inner, "fbfailed");
peel!(tower_resilience_hedge::HedgeError<E>, tower_resilience_hedge::HedgeError::Inner, "allfailed");
peel!(tower_resilience_adaptive::AdaptiveError<E>, tower_resilience_adaptive::AdaptiveError::Service, "limit");
peel!(tower_resilience_coalesce::CoalesceError<E>, tower_resilience_coalesce::CoalesceError::Service, "cancelled");
peel!(tower_resilience_executor::ExecutorError<E>, tower_resilience_executor::ExecutorError::Service, "taskcancelled");

pub trait DynSvc {
    fn ready(&mut self) -> &'static str;
    fn call(&mut self, r: Req) -> CallFut;
    fn dup(&self) -> Box<dyn DynSvc>;
}
struct W<S>(S);
impl<S> DynSvc for W<S>
where
    S: Service<Req, Response = Resp> + Clone + 'static,
    S::Future: 'static,
    S::Error: 'static,
    ErrOf<S>: PeelAny,
{
    fn ready(&mut self) -> &'static str {
        let w = futures::task::noop_waker();
        let mut cx = std::task::Context::from_waker(&w);
        match self.0.poll_ready(&mut cx) {
            Poll::Ready(Ok(())) => "ready",
            Poll::Ready(Err(_)) => "err",
            Poll::Pending => "pending",
        }
    }
    fn call(&mut self, r: Req) -> CallFut {
        let f = self.0.call(r);
        keep_alive(f, |res: Result<Resp, S::Error>| match res {
            Ok(r) => Out::Ok { val: r.serial, req: r.req },
            Err(e) => {
                let (kind, val) = ErrOf::<S>(e).peel_any();
                Out::Err { kind, val }
            }
        })
    }
    fn dup(&self) -> Box<dyn DynSvc> {
        Box::new(W(self.0.clone()))
    }
}
/// newtype so that reconnect's unnameable error type (and retry's plain E) can be peeled too
pub struct ErrOf<S: Service<Req>>(S::Error);
pub trait PeelAny {
    fn peel_any(self) -> (String, i64);
}
impl<S: Service<Req>> PeelAny for ErrOf<S>
where
    S::Error: MaybePeel,
{
    fn peel_any(self) -> (String, i64) {
        self.0.maybe_peel()
    }
}
pub trait MaybePeel {
    fn maybe_peel(self) -> (String, i64);
}
impl<E: Peel> MaybePeel for E {
    fn maybe_peel(self) -> (String, i64) {
        self.peel()
    }
}
fn wrap<S>(s: S) -> Box<dyn DynSvc>
where
    S: Service<Req, Response = Resp> + Clone + 'static,
    S::Future: 'static,
    S::Error: Peel + 'static,
{
    Box::new(W(s))
}
/// reconnect's error type is private: peel through Display text and source()
struct RcW<S>(S);
impl<S> DynSvc for RcW<S>
where
    S: Service<Req, Response = Resp> + Clone + 'static,
    S::Future: 'static,
    S::Error: std::error::Error + 'static,
{
    fn ready(&mut self) -> &'static str {
        let w = futures::task::noop_waker();
        let mut cx = std::task::Context::from_waker(&w);
        match self.0.poll_ready(&mut cx) {
            Poll::Ready(Ok(())) => "ready",
            Poll::Ready(Err(_)) => "err",
            Poll::Pending => "pending",
        }
    }
    fn call(&mut self, r: Req) -> CallFut {
        let f = self.0.call(r);
        keep_alive(f, |res: Result<Resp, S::Error>| match res {
            Ok(r) => Out::Ok { val: r.serial, req: r.req },
            Err(e) => {
                use std::error::Error;
                let txt = e.to_string();
                match e.source().and_then(|x| x.downcast_ref::<IErr>()) {
                    Some(ie) if txt.starts_with("service error") => Out::Err { kind: format!("inner{}", ie.code), val: ie.serial as i64 },
                    Some(ie) => Out::Err { kind: format!("reconnect:{}", txt.split(':').next().unwrap_or("")), val: ie.serial as i64 },
                    None => Out::Err { kind: "reconnect".into(), val: -1 },
                }
            }
        })
    }
    fn dup(&self) -> Box<dyn DynSvc> {
        Box::new(RcW(self.0.clone()))
    }
}

pub const LAYERS: &[&str] = &[
    "bulkhead", "ratelimiter", "circuitbreaker", "cbfallback", "retry", "timelimiter", "timelimiter_bg", "cache", "fallback", "hedge", "reconnect",
    "adaptive", "coalesce", "executor", "chaos", "stackA", "stackB", "stackD", "stackE",
];
/// layers that may legitimately call the inner service again after a failure
pub fn retries(name: &str) -> bool {
    matches!(name, "retry" | "hedge" | "reconnect" | "stackA" | "stackD" | "stackE")
}
fn keyfn(r: &Req) -> u32 {
    r.id
}
fn build<I>(name: &str, inner: I) -> Box<dyn DynSvc>
where
    I: Service<Req, Response = Resp, Error = IErr> + Clone + Send + Sync + 'static,
    I::Future: Send + 'static,
{
    use tower_resilience_adaptive::{AdaptiveLimiterLayer, Aimd, Algorithm};
    use tower_resilience_bulkhead::BulkheadLayer;
    use tower_resilience_cache::CacheLayer;
    use tower_resilience_chaos::ChaosLayer;
    use tower_resilience_circuitbreaker::CircuitBreakerLayer;
    use tower_resilience_coalesce::CoalesceLayer;
    use tower_resilience_executor::ExecutorLayer;
    use tower_resilience_fallback::FallbackLayer;
    use tower_resilience_hedge::HedgeLayer;
    use tower_resilience_ratelimiter::RateLimiterLayer;
    use tower_resilience_reconnect::{ReconnectConfig, ReconnectLayer, ReconnectPolicy};
    use tower_resilience_retry::{FixedInterval, RetryLayer};
    use tower_resilience_timelimiter::TimeLimiterLayer;
    let ms = Duration::from_millis;
    let tl = || TimeLimiterLayer::builder().timeout_duration(ms(1000)).build();
    let retry = || RetryLayer::<Req, IErr>::builder().max_attempts(3).backoff(FixedInterval::new(ms(1))).build();
    let aimd = || Algorithm::Aimd(Aimd::builder().initial_limit(10).min_limit(10).max_limit(10).build());
    match name {
        "bulkhead" => wrap(BulkheadLayer::builder().max_concurrent_calls(10).build().layer(inner)),
        "ratelimiter" => wrap(RateLimiterLayer::builder().limit_for_period(1000).refresh_period(ms(1000)).timeout_duration(ms(0)).build().layer(inner)),
        "circuitbreaker" => wrap(CircuitBreakerLayer::builder().build().layer_fn(inner)),
        "cbfallback" => wrap(CircuitBreakerLayer::builder().build().layer_fn(inner).with_fallback(|r: Req| -> BoxFuture<'static, Result<Resp, IErr>> {
            Box::pin(async move { Ok(Resp { serial: 9000 + r.id as u64, req: r.id }) })
        })),
        "retry" => wrap(retry().layer(inner)),
        "timelimiter" => wrap(tl().layer(inner)),
        "timelimiter_bg" => wrap(TimeLimiterLayer::builder().timeout_duration(ms(1000)).cancel_running_future(false).build().layer(inner)),
        "cache" => wrap(CacheLayer::<Req, u32>::builder().max_size(10).key_extractor(|r: &Req| r.id).build().layer(inner)),
        "fallback" => wrap(FallbackLayer::<Req, Resp, IErr>::builder().value(Resp { serial: 7000, req: 0 }).handle(|_e: &IErr| false).build().layer(inner)),
        "hedge" => wrap(HedgeLayer::builder().max_hedged_attempts(2).delay(ms(5)).build().layer(inner)),
        "reconnect" => Box::new(RcW(ReconnectLayer::new(ReconnectConfig::builder().policy(ReconnectPolicy::fixed(ms(1))).max_attempts(2).build()).layer(inner))),
        "adaptive" => wrap(AdaptiveLimiterLayer::new(aimd()).layer(inner)),
        "coalesce" => {
            let l: CoalesceLayer<u32, Req, fn(&Req) -> u32> = CoalesceLayer::new(keyfn as fn(&Req) -> u32);
            wrap(l.layer(inner))
        }
        "executor" => wrap(ExecutorLayer::current().layer(inner)),
        "chaos" => wrap(ChaosLayer::builder().error_rate(0.0).error_fn(|_r: &Req| IErr { code: 99, serial: 0 }).latency_rate(0.0).seed(7).build().layer(inner)),
        // stacks of the composition guide that type-check as services
        "stackA" => wrap(tl().layer(retry().layer(inner))),
        "stackB" => wrap(tl().layer(CircuitBreakerLayer::builder().build().layer_fn(BulkheadLayer::builder().max_concurrent_calls(10).build().layer(inner)))),
        "stackD" => wrap(tl().layer(HedgeLayer::builder().max_hedged_attempts(2).delay(ms(5)).build().layer(inner))),
        _ => wrap(tl().layer(AdaptiveLimiterLayer::new(aimd()).layer(retry().layer(inner)))),
    }
}

pub struct StacksAd {
    cur: Option<Box<dyn DynSvc>>,
}
impl StacksAd {
    pub fn new() -> Self {
        StacksAd { cur: None }
    }
}
impl Adapter for StacksAd {
    fn name(&self) -> &'static str {
        "stacks"
    }
    fn gen_cfg(&mut self, rng: &mut Rng, _size: Size) -> Value {
        let l = *rng.pick(LAYERS);
        json!({"layer": l, "inner": *rng.pick(&["strict", "strict", "climit"]), "retries": if retries(l) { 1 } else { 0 }})
    }
    fn build(&mut self, cfg: &Value, sim: &mut Sim) {
        sim.w.lock().unwrap().track_inst = true;
        sim.hold_finished = true;
        let name = cfg["layer"].as_str().unwrap();
        let inner = Inner::new(&sim.w);
        self.cur = Some(if cfg["inner"] == "climit" { build(name, ConcurrencyLimit::new(inner, 10)) } else { build(name, inner) });
    }
    fn mk(&mut self, req: &Req) -> CallFut {
        // the instance the environment drove to readiness is the one that is called
        self.cur.as_mut().unwrap().call(req.clone())
    }
    fn op(&mut self, name: &str, ev: &Value, sim: &mut Sim) -> (Value, Obj) {
        match name {
            "script" => {
                let v: Vec<ReadyAns> = ev["ans"].as_array().map(|a| a.iter().map(|x| match x.as_str().unwrap_or("ready") {
                    "pending" => ReadyAns::Pending,
                    "err" => ReadyAns::Err(7),
                    _ => ReadyAns::Ready,
                }).collect()).unwrap_or_default();
                sim.w.lock().unwrap().ready_script = v;
                (json!("ok"), Obj::new())
            }
            "ready" => (json!(self.cur.as_mut().unwrap().ready()), Obj::new()),
            "clone" => {
                let d = self.cur.as_ref().unwrap().dup();
                self.cur = Some(d);
                (json!("ok"), Obj::new())
            }
            _ => (Value::Null, Obj::new()),
        }
    }
    fn params(&self, _cfg: &Value, _size: Size, _rng: &mut Rng) -> DriveParams {
        DriveParams::default()
    }
    fn script(&mut self, cfg: &Value, _size: Size, rng: &mut Rng) -> Option<Vec<Value>> {
        let mut v = vec![];
        let ready_until = |v: &mut Vec<Value>| {
            // drive the outer service to readiness the way a Tower caller does
            v.push(json!({"e":"op","name":"ready"}));
        };
        let strict = cfg["inner"] == "strict";
        let n = 3 + rng.below(3);
        for c in 1..=n {
            if strict && rng.pct(40) {
                v.push(json!({"e":"op","name":"script","ans":["pending","ready","ready","ready","ready"]}));
                ready_until(&mut v); // pending
            }
            ready_until(&mut v);
            v.push(json!({"e":"create","c":c,"key":10 + c}));
            v.push(json!({"e":"settle"}));
            let fail = rng.pct(35);
            v.push(json!({"e":"completeall","out": if fail { "e1" } else { "ok" }}));
            v.push(json!({"e":"settle"}));
            if fail {
                // retrying layers wait for their backoff / hedge delay and call again
                for _ in 0..3 {
                    v.push(json!({"e":"advance","d":6}));
                    v.push(json!({"e":"settle"}));
                    v.push(json!({"e":"completeall","out":"ok"}));
                    v.push(json!({"e":"settle"}));
                }
            }
            if rng.pct(30) {
                v.push(json!({"e":"op","name":"clone"}));
            }
        }
        if strict {
            v.push(json!({"e":"op","name":"script","ans":["err"]}));
            ready_until(&mut v);
        }
        v.push(json!({"e":"dropall"}));
        v.push(json!({"e":"op","name":"end"}));
        Some(v)
    }
    fn teardown(&mut self) {
        self.cur = None;
    }
}
