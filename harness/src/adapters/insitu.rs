//! Adapter "insitu": real stacks in *triggering* configurations with a probe at every boundary (src/insitu.rs).
//! `--variant <stack>:<layer>` selects the stack and whose projection is written out (layer 0 = the driver's
//! own trace of the whole stack). The runs depend on (seed, run, size) only, never on the chosen layer.
use crate::drive::*;
use crate::insitu::*;
use crate::sim::*;
use futures::FutureExt;
use serde_json::{json, Value};
use std::time::Duration;
use tower::{Layer, Service};
use tower_resilience_bulkhead::BulkheadLayer;
use tower_resilience_circuitbreaker::{CircuitBreakerLayer, CircuitState, SlidingWindowType};
use tower_resilience_timelimiter::TimeLimiterLayer;

type MkFn = Box<dyn FnMut(&Req) -> CallFut>;
/// performs a named operation on some layer; returns the layer whose trace shows it and the fields of the event
type OpFn = Box<dyn FnMut(&str) -> (usize, Obj)>;
pub struct InsituAd {
    stack: String,
    layer: usize,
    hub: Option<H>,
    mkf: Option<MkFn>,
    opf: Option<OpFn>,
    oplayer: usize,
}
impl InsituAd {
    pub fn new(variant: &str) -> Self {
        let mut it = variant.split(':');
        let stack = it.next().filter(|s| !s.is_empty()).unwrap_or("S1").to_string();
        let layer = it.next().and_then(|s| s.parse().ok()).unwrap_or(1);
        InsituAd { stack, layer, hub: None, mkf: None, opf: None, oplayer: 0 }
    }
}
fn st_name(s: CircuitState) -> &'static str {
    match s {
        CircuitState::Closed => "closed",
        CircuitState::Open => "open",
        CircuitState::HalfOpen => "half",
    }
}
fn now<T>(f: impl std::future::Future<Output = T>) -> T {
    f.now_or_never().expect("circuit lock contended between polls")
}
fn q(x: u64) -> f64 {
    x as f64 / 4.0
}
/// the driver's view of the whole stack (layer 0 trace): kinds as the probes name them
fn top<S>(svc: S) -> MkFn
where
    S: Service<Req, Response = Resp> + Clone + 'static,
    S::Future: 'static,
    S::Error: ErrTok,
{
    Box::new(move |req: &Req| -> CallFut {
        let mut s = svc.clone();
        let w = futures::task::noop_waker();
        let mut cx = std::task::Context::from_waker(&w);
        // a caller that does not find the stack ready does not call (Tower contract)
        if !matches!(s.poll_ready(&mut cx), std::task::Poll::Ready(Ok(()))) {
            return Box::pin(async move { Out::Err { kind: "notready".into(), val: -1 } });
        }
        let f = s.call(req.clone());
        Box::pin(async move {
            match f.await {
                Ok(r) => Out::Ok { val: r.serial, req: r.req },
                Err(e) => Out::Err { kind: e.own().unwrap_or_else(|| format!("inner{}", e.code())), val: e.serial() },
            }
        })
    })
}
impl InsituAd {
    fn finish_build(&mut self, hub: H, sim: &mut Sim) {
        // the first observation of every layer (state before anything happened)
        {
            let mut h = hub.lock().unwrap();
            for k in 1..=h.n() {
                let l = &mut h.layers[k];
                if let Some(o) = l.obs.as_mut() {
                    l.last_obs = o();
                }
            }
        }
        let h2 = hub.clone();
        sim.tap = Some(Box::new(move |m: &Obj| {
            if m.get("e").and_then(|x| x.as_str()) == Some("advance") {
                let mut e = Sim::ev("advance");
                e.insert("d".into(), m["d"].clone());
                h2.lock().unwrap().broadcast(&e);
            }
        }));
        self.hub = Some(hub);
    }
    fn build_s4(&mut self, cfg: &Value, sim: &mut Sim) {
        use tower_resilience_cache::{CacheLayer, EvictionPolicy};
        let (tl, ca, bh) = (&cfg["tl"], &cfg["ca"], &cfg["bh"]);
        let hub = Hub::new(&[("timelimiter", tl.clone()), ("cache", ca.clone()), ("bulkhead", bh.clone())], sim.seed, sim.run, cfg["size"].as_str().unwrap_or("quick"), cfg);
        hub.lock().unwrap().t0 = sim.t0;
        self.opf = None;
        let p3 = Probe::new(Inner::new(&sim.w), &hub, 3);
        let mut b = BulkheadLayer::builder().max_concurrent_calls(bh["max"].as_u64().unwrap() as usize);
        let wait = bh["wait"].as_i64().unwrap();
        if wait >= 0 {
            b = b.max_wait_duration(Duration::from_millis(wait as u64));
        }
        let p2 = Probe::new(b.build().layer(p3), &hub, 2);
        let pol = match ca["pol"].as_str().unwrap() {
            "lru" => EvictionPolicy::Lru,
            "lfu" => EvictionPolicy::Lfu,
            _ => EvictionPolicy::Fifo,
        };
        let mut cb = CacheLayer::<Req, CKey>::builder().max_size(ca["max"].as_u64().unwrap() as usize).eviction_policy(pol).key_extractor(|r: &Req| CKey(r.key));
        let ttl = ca["ttl"].as_i64().unwrap();
        if ttl >= 0 {
            cb = cb.ttl(if ttl >= 1000000 { Duration::MAX } else { Duration::from_millis(ttl as u64) });
        }
        let p1 = Probe::new(cb.build().layer(p2), &hub, 1);
        let tv = tl["T"].as_u64().unwrap();
        let t = if tv >= 1000000 { Duration::MAX } else { Duration::from_millis(tv) };
        let tlb = TimeLimiterLayer::builder();
        let tll = if tl["ord"].as_u64().unwrap_or(0) == 1 { tlb.cancel_running_future(true).timeout_duration(t).build() } else { tlb.timeout_duration(t).cancel_running_future(true).build() };
        let p0 = Probe::new(tll.layer(p1), &hub, 0);
        self.mkf = Some(top(p0));
        self.finish_build(hub, sim);
    }
    fn build_s3(&mut self, cfg: &Value, sim: &mut Sim) {
        use tower_resilience_adaptive::{AdaptiveLimiterLayer, Aimd, Algorithm, Vegas};
        use tower_resilience_coalesce::CoalesceLayer;
        use tower_resilience_ratelimiter::{RateLimiterLayer, WindowType};
        let (ad, rl, co) = (&cfg["ad"], &cfg["rl"], &cfg["co"]);
        let hub = Hub::new(&[("adaptive", ad.clone()), ("ratelimiter", rl.clone()), ("coalesce", co.clone())], sim.seed, sim.run, cfg["size"].as_str().unwrap_or("quick"), cfg);
        hub.lock().unwrap().t0 = sim.t0;
        let p3 = Probe::new(Inner::new(&sim.w), &hub, 3);
        fn keyfn(r: &Req) -> CKey {
            CKey(r.key)
        }
        let col: CoalesceLayer<CKey, Req, fn(&Req) -> CKey> = CoalesceLayer::new(keyfn as fn(&Req) -> CKey);
        let p2 = Probe::new(col.layer(p3), &hub, 2);
        let wt = match rl["win"].as_str().unwrap() {
            "fixed" => WindowType::Fixed,
            "log" => WindowType::SlidingLog,
            _ => WindowType::SlidingCounter,
        };
        let rll = RateLimiterLayer::builder()
            .limit_for_period(rl["L"].as_u64().unwrap() as usize)
            .refresh_period(Duration::from_millis(rl["P"].as_u64().unwrap()))
            .timeout_duration(Duration::from_millis(rl["T"].as_u64().unwrap()))
            .window_type(wt)
            .build();
        let p1 = Probe::new(rll.layer(p2), &hub, 1);
        let u = |k: &str| ad[k].as_u64().unwrap_or(1) as usize;
        let alg = if ad["kind"] == "vegas" {
            Algorithm::Vegas(Vegas::builder().initial_limit(u("initial")).min_limit(u("min")).max_limit(u("max")).build())
        } else {
            Algorithm::Aimd(Aimd::builder().initial_limit(u("initial")).min_limit(u("min")).max_limit(u("max")).increase_by(u("inc").max(1))
                .decrease_factor(ad["fnum"].as_u64().unwrap_or(2) as f64 / 4.0).latency_threshold(Duration::from_millis(3)).build())
        };
        let svc = AdaptiveLimiterLayer::new(alg).layer(p1);
        let view = svc.clone();
        hub.lock().unwrap().layers[1].obs = Some(Box::new(move || {
            let mut m = Obj::new();
            m.insert("inf".into(), json!(view.in_flight()));
            m.insert("inf2".into(), json!(0));
            m.insert("limit".into(), json!(view.limit()));
            m
        }));
        let p0 = Probe::new(svc, &hub, 0);
        let prober = p0.clone();
        self.opf = Some(Box::new(move |name: &str| {
            let mut m = Obj::new();
            if name == "probe" {
                // a readiness probe on a fresh clone of the whole stack
                let mut s = prober.clone();
                let w = futures::task::noop_waker();
                let mut cx = std::task::Context::from_waker(&w);
                let r = match s.poll_ready(&mut cx) {
                    std::task::Poll::Ready(Ok(())) => "ready",
                    std::task::Poll::Ready(Err(_)) => "err",
                    std::task::Poll::Pending => "pending",
                };
                m.insert("res".into(), json!(r));
                m.insert("svc".into(), json!(1));
                (1, m)
            } else {
                // "end": the rate limiter's end-of-run check
                m.insert("res".into(), json!("none"));
                (2, m)
            }
        }));
        self.mkf = Some(top(p0));
        self.finish_build(hub, sim);
    }
    fn build_s2(&mut self, cfg: &Value, sim: &mut Sim) {
        use futures::future::BoxFuture;
        use std::sync::atomic::{AtomicU64, Ordering};
        use std::sync::Arc;
        use tower_resilience_fallback::FallbackLayer;
        use tower_resilience_retry::{ExponentialBackoff, FixedInterval, RetryBudget, RetryLayer};
        let (tl, fb, rt) = (&cfg["tl"], &cfg["fb"], &cfg["rt"]);
        let hub = Hub::new(&[("timelimiter", tl.clone()), ("fallback", fb.clone()), ("retry", rt.clone())], sim.seed, sim.run, cfg["size"].as_str().unwrap_or("quick"), cfg);
        hub.lock().unwrap().t0 = sim.t0;
        self.opf = None;
        self.oplayer = 0;
        let p3 = Probe::new(Inner::new(&sim.w), &hub, 3);
        // retry
        let u = |k: &str| rt[k].as_u64().unwrap();
        let mut b = RetryLayer::<Req, IErr>::builder();
        b = if u("perReq") == 1 { b.max_attempts_fn(|r: &Req| (r.key as usize).saturating_sub(1)) } else { b.max_attempts(u("max") as usize) };
        if rt["pred"] == "noe2" {
            b = b.retry_on(|e: &IErr| e.code != 2);
        }
        b = if rt["bo"] == "fixed" {
            b.backoff(FixedInterval::new(Duration::from_millis(u("b0"))))
        } else {
            b.backoff(ExponentialBackoff::new(Duration::from_millis(u("b0"))).max_interval(Duration::from_millis(u("cap"))))
        };
        if rt["budget"].as_i64().unwrap() >= 0 {
            let x: Arc<dyn RetryBudget> = crate::adapters::budget::mk_budget_cfg("tb", 1, u("bmax") as usize, rt["budget"].as_u64().unwrap() as usize, 1, 1, 2, 0);
            let x2 = x.clone();
            b = b.budget(x2);
            hub.lock().unwrap().layers[3].obs = Some(Box::new(move || {
                let mut m = Obj::new();
                m.insert("bal".into(), json!(x.balance()));
                m
            }));
        }
        let p2 = Probe::new(b.build().layer(p3), &hub, 2);
        // fallback
        let vfn = Arc::new(AtomicU64::new(0));
        let bkc = Arc::new(AtomicU64::new(0));
        let mut f = FallbackLayer::<Req, Resp, IErr>::builder();
        let bk_ok = fb["bk"] == "ok";
        let pred_first = fb["ord"].as_u64().unwrap_or(0) == 1;
        if pred_first && fb["pred"].as_u64().unwrap() == 1 {
            f = f.handle(|e: &IErr| e.code != 2);
        }
        f = match fb["strat"].as_str().unwrap() {
            "value" => f.value(Resp { serial: 7000, req: 0 }),
            "valuefn" => {
                let v = vfn.clone();
                f.value_fn(move || Resp { serial: 7100 + v.fetch_add(1, Ordering::SeqCst) + 1, req: 0 })
            }
            "fromerr" => f.from_error(|e: &IErr| Resp { serial: 7200 + e.code as u64, req: e.serial as u32 }),
            "fromreq" => f.from_request_error(|r: &Req, e: &IErr| Resp { serial: 7300 + e.code as u64, req: 1000 * r.id + e.serial as u32 }),
            _ => {
                let k = bkc.clone();
                f.service(move |r: Req| -> BoxFuture<'static, Result<Resp, IErr>> {
                    k.fetch_add(1, Ordering::SeqCst);
                    Box::pin(async move {
                        if bk_ok {
                            Ok(Resp { serial: 7400, req: r.id })
                        } else {
                            Err(IErr { code: 74, serial: r.id as u64 })
                        }
                    })
                })
            }
        };
        if !pred_first && fb["pred"].as_u64().unwrap() == 1 {
            f = f.handle(|e: &IErr| e.code != 2);
        }
        hub.lock().unwrap().layers[2].obs = Some(Box::new(move || {
            let mut m = Obj::new();
            m.insert("vfn".into(), json!(vfn.load(Ordering::SeqCst)));
            m.insert("bk".into(), json!(bkc.load(Ordering::SeqCst)));
            m
        }));
        let p1 = Probe::new(f.build().layer(p2), &hub, 1);
        // time limiter
        let tv = tl["T"].as_u64().unwrap();
        let t = if tv >= 1000000 { Duration::MAX } else { Duration::from_millis(tv) };
        let tlb = TimeLimiterLayer::builder();
        let tll = if tl["ord"].as_u64().unwrap_or(0) == 1 { tlb.cancel_running_future(true).timeout_duration(t).build() } else { tlb.timeout_duration(t).cancel_running_future(true).build() };
        let p0 = Probe::new(tll.layer(p1), &hub, 0);
        self.mkf = Some(top(p0));
        self.finish_build(hub, sim);
    }
}
impl Adapter for InsituAd {
    fn name(&self) -> &'static str {
        "insitu"
    }
    fn gen_cfg(&mut self, rng: &mut Rng, size: Size) -> Value {
        let sz = if size == Size::Quick { "quick" } else { "thorough" };
        match self.stack.as_str() {
            // S4: time limiter (cancelling) over cache (TTL, three policies, colliding-hash keys) over bulkhead
            "S4" => {
                let nk = 2 + rng.below(4);
                json!({"stack": "S4", "size": sz,
                    "tl": {"T": *rng.pick(&[3u64, 5, 8, 1000000]), "perReq": 0, "cancel": 1, "ord": rng.below(2), "lazy": 0},
                    "ca": {"max": 1 + rng.below(nk.min(4)), "ttl": *rng.pick(&[-1i64, 2, 5, 9, 1000000]), "pol": *rng.pick(&["lru", "lfu", "fifo"]), "shared": 1, "nkeys": nk, "ctor": 0},
                    "bh": {"max": 1 + rng.below(3), "wait": *rng.pick(&[-1i64, 0, 1, 3])}})
            }
            // S3: adaptive limiter over rate limiter (three window types, waiting callers) over coalescer
            "S3" => {
                let min = 1 + rng.below(2);
                let max = min + rng.below(4);
                let p = *rng.pick(&[3u64, 4, 5, 8]);
                json!({"stack": "S3", "size": sz,
                    "ad": {"kind": *rng.pick(&["aimd", "vegas"]), "min": min, "max": max, "initial": rng.below(max + 2), "inc": 1 + rng.below(2), "fnum": *rng.pick(&[0u64, 2, 3, 4]), "two": 0},
                    "rl": {"win": *rng.pick(&["fixed", "log", "counter"]), "L": 1 + rng.below(3), "P": p, "T": *rng.pick(&[0u64, 1, 2, p - 1, p, p + 1, 2 * p]), "slow": 1, "lazy": 0},
                    "co": {"x": 0}})
            }
            // S2: time limiter (cancelling) over fallback over retry (fixed / exponential backoff, optional token bucket)
            "S2" => {
                let bo = *rng.pick(&["fixed", "exp"]);
                let budget = *rng.pick(&[-1i64, -1, 0, 1, 2, 3]);
                json!({"stack": "S2", "size": sz,
                    "tl": {"T": *rng.pick(&[3u64, 5, 8, 12, 1000000]), "perReq": 0, "cancel": 1, "ord": rng.below(2), "lazy": 0},
                    "fb": {"strat": *rng.pick(&["value", "valuefn", "fromerr", "fromreq", "service"]), "pred": rng.below(2), "bk": *rng.pick(&["ok", "err"]), "ord": rng.below(2)},
                    "rt": {"max": rng.below(5), "perReq": if rng.pct(30) { 1 } else { 0 }, "pred": *rng.pick(&["all", "noe2"]), "bo": bo, "b0": 1 + rng.below(2), "cap": 3 + rng.below(3),
                           "budget": budget, "bmax": 3, "btype": "tb", "bmin": 1, "cost": 1, "amount": 1, "fnum": 2}})
            }
            // S1: time limiter (cancelling) over circuit breaker over bulkhead
            _ => {
                let wt = *rng.pick(&["count", "time"]);
                let n = 2 + rng.below(3) as u64;
                json!({"stack": "S1", "size": sz,
                    "tl": {"T": *rng.pick(&[2u64, 3, 4, 6, 9]), "perReq": 0, "cancel": 1, "ord": rng.below(2), "lazy": 0},
                    "cb": {"wt": wt, "N": n, "min": *rng.pick(&[1, n, (n / 2).max(1)]), "thr": *rng.pick(&[1u64, 2, 2, 3, 4]), "perm": 1 + rng.below(2),
                           "slowOn": rng.below(2), "slowThr": 2 + rng.below(2), "slowRate": *rng.pick(&[1u64, 2, 4]), "D": *rng.pick(&[4u64, 7]),
                           "wait": *rng.pick(&[1u64, 2, 3, 5]), "cls": *rng.pick(&["default", "e2ok"]), "fb": 0, "lazy": 0},
                    "bh": {"max": 1 + rng.below(3), "wait": *rng.pick(&[-1i64, 0, 1, 2, 3])}})
            }
        }
    }
    fn build(&mut self, cfg: &Value, sim: &mut Sim) {
        if cfg["stack"] == "S2" {
            return self.build_s2(cfg, sim);
        }
        if cfg["stack"] == "S3" {
            return self.build_s3(cfg, sim);
        }
        if cfg["stack"] == "S4" {
            return self.build_s4(cfg, sim);
        }
        let (tl, cb, bh) = (&cfg["tl"], &cfg["cb"], &cfg["bh"]);
        let hub = Hub::new(&[("timelimiter", tl.clone()), ("circuitbreaker", cb.clone()), ("bulkhead", bh.clone())], sim.seed, sim.run, cfg["size"].as_str().unwrap_or("quick"), cfg);
        hub.lock().unwrap().t0 = sim.t0;
        // innermost: the gated service behind probe 3
        let p3 = Probe::new(Inner::new(&sim.w), &hub, 3);
        let mut b = BulkheadLayer::builder().max_concurrent_calls(bh["max"].as_u64().unwrap() as usize);
        let wait = bh["wait"].as_i64().unwrap();
        if wait >= 0 {
            b = b.max_wait_duration(Duration::from_millis(wait as u64));
        }
        let p2 = Probe::new(b.build().layer(p3), &hub, 2);
        let u = |k: &str| cb[k].as_u64().unwrap();
        macro_rules! opts {
            ($b:expr) => {{
                let mut b = $b
                    .failure_rate_threshold(q(u("thr")))
                    .sliding_window_type(if cb["wt"] == "count" { SlidingWindowType::CountBased } else { SlidingWindowType::TimeBased })
                    .sliding_window_size(u("N") as usize)
                    .sliding_window_duration(Duration::from_millis(u("D")))
                    .wait_duration_in_open(Duration::from_millis(u("wait")))
                    .permitted_calls_in_half_open(u("perm") as usize)
                    .minimum_number_of_calls(u("min") as usize);
                if u("slowOn") == 1 {
                    b = b.slow_call_duration_threshold(Duration::from_millis(u("slowThr"))).slow_call_rate_threshold(q(u("slowRate")));
                }
                b
            }};
        }
        let t = Duration::from_millis(tl["T"].as_u64().unwrap());
        let tlb = TimeLimiterLayer::builder();
        let tll = if tl["ord"].as_u64().unwrap_or(0) == 1 { tlb.cancel_running_future(true).timeout_duration(t).build() } else { tlb.timeout_duration(t).cancel_running_future(true).build() };
        macro_rules! finish {
            ($cbsvc:expr) => {{
                let cbsvc = $cbsvc;
                let view = cbsvc.clone();
                hub.lock().unwrap().layers[2].obs = Some(Box::new(move || {
                    let m = now(view.metrics());
                    let mut o = Obj::new();
                    o.insert("sync".into(), json!(st_name(view.state_sync())));
                    o.insert("ast".into(), json!(st_name(now(view.state()))));
                    o.insert("mst".into(), json!(st_name(m.state)));
                    o.insert("isopen".into(), json!(view.is_open()));
                    o.insert("mt".into(), json!(m.total_calls));
                    o.insert("mf".into(), json!(m.failure_count));
                    o.insert("msl".into(), json!(m.slow_call_count));
                    o
                }));
                let ctl = cbsvc.clone();
                self.opf = Some(Box::new(move |name: &str| {
                    match name {
                        "force_open" => now(ctl.force_open()),
                        "force_closed" => now(ctl.force_closed()),
                        "reset" => now(ctl.reset()),
                        _ => {}
                    }
                    let mut m = Obj::new();
                    m.insert("res".into(), json!("none"));
                    (2, m)
                }));
                let p1 = Probe::new(cbsvc, &hub, 1);
                let p0 = Probe::new(tll.layer(p1), &hub, 0);
                self.mkf = Some(top(p0));
            }};
        }
        if cb["cls"] == "default" {
            finish!(opts!(CircuitBreakerLayer::builder()).build().layer(p2));
        } else {
            let cls = |r: &Result<Resp, tower_resilience_bulkhead::BulkheadServiceError<IErr>>| matches!(r, Err(e) if e.code() != 2);
            finish!(opts!(CircuitBreakerLayer::builder()).failure_classifier(cls).build().layer(p2));
        }
        self.finish_build(hub, sim);
    }
    fn mk(&mut self, req: &Req) -> CallFut {
        (self.mkf.as_mut().unwrap())(req)
    }
    fn op(&mut self, name: &str, _ev: &Value, _sim: &mut Sim) -> (Value, Obj) {
        if let Some(f) = self.opf.as_mut() {
            let (layer, extra) = f(name);
            let mut m = Sim::ev("op");
            m.insert("name".into(), json!(name));
            for (k, v) in extra {
                m.insert(k, v);
            }
            self.hub.as_ref().unwrap().lock().unwrap().emit(layer, m, true);
        }
        (Value::Null, Obj::new())
    }
    fn params(&self, cfg: &Value, size: Size, rng: &mut Rng) -> DriveParams {
        if cfg["stack"] == "S4" {
            let mut p = DriveParams::default();
            p.n = if size == Size::Quick { 10 + rng.below(8) } else { 14 + rng.below(12) };
            p.keys = cfg["ca"]["nkeys"].as_u64().unwrap_or(3) as u32;
            p.steps = if size == Size::Quick { 110 } else { 240 };
            p.horizon = 40;
            p.outs = vec![(GOut::Ok, 8), (GOut::Err(1), 2), (GOut::Panic, 1)];
            p.w_drop = 1;
            p.w_create = 6;
            p.w_complete = 6;
            p.w_adv = 2;
            p.max_adv = 3;
            return p;
        }
        if cfg["stack"] == "S3" {
            let mut p = DriveParams::default();
            p.n = if size == Size::Quick { 6 + rng.below(5) } else { 8 + rng.below(8) };
            p.keys = 1 + rng.below(3) as u32;
            p.steps = if size == Size::Quick { 90 } else { 200 };
            p.horizon = 6 * cfg["rl"]["P"].as_u64().unwrap();
            p.outs = vec![(GOut::Ok, 5), (GOut::Err(1), 3), (GOut::Panic, 1)];
            p.w_drop = 2;
            p.w_create = 5;
            p.w_op = 2;
            p.ops = vec!["probe"];
            p.max_adv = 3;
            return p;
        }
        if cfg["stack"] == "S2" {
            let mut p = DriveParams::default();
            p.n = if size == Size::Quick { 3 + rng.below(3) } else { 3 + rng.below(4) };
            p.keys = 5;
            p.steps = if size == Size::Quick { 90 } else { 200 };
            p.horizon = 60;
            p.outs = vec![(GOut::Ok, 3), (GOut::Err(1), 7), (GOut::Err(2), 2), (GOut::Panic, 1)];
            p.w_drop = 1;
            p.w_create = 3;
            p.max_adv = 3;
            return p;
        }
        let mut p = DriveParams::default();
        p.n = if size == Size::Quick { 4 + rng.below(4) } else { 5 + rng.below(6) };
        p.steps = if size == Size::Quick { 70 } else { 160 };
        p.horizon = 6 * cfg["cb"]["wait"].as_u64().unwrap() + 12;
        p.outs = vec![(GOut::Ok, 4), (GOut::Err(1), 5), (GOut::Err(2), 1), (GOut::Panic, 1)];
        p.w_drop = 1;
        p.w_op = 1;
        p.ops = vec!["force_open", "force_closed", "reset"];
        p.max_adv = 3;
        p
    }
    fn finale(&self, cfg: &Value) -> Vec<Value> {
        if cfg["stack"] == "S3" {
            // the rate limiter's end-of-run check: nobody undecided beyond its timeout
            let t = cfg["rl"]["T"].as_u64().unwrap();
            return vec![json!({"e":"settle"}), json!({"e":"advance","d": t + 1}), json!({"e":"settle"}), json!({"e":"op","name":"end"}), json!({"e":"dropall"})];
        }
        vec![json!({"e":"settle"}), json!({"e":"dropall"})]
    }
    fn take_lines(&mut self) -> Option<Vec<String>> {
        if self.layer == 0 {
            return None;
        }
        let h = self.hub.as_ref()?;
        let mut g = h.lock().unwrap();
        let k = self.layer.min(g.n());
        Some(std::mem::take(&mut g.layers[k].lines))
    }
    fn teardown(&mut self) {
        self.mkf = None;
        self.opf = None;
        if let Some(h) = self.hub.as_ref() {
            let mut g = h.lock().unwrap();
            for l in g.layers.iter_mut() {
                l.obs = None;
            }
        }
    }
}
