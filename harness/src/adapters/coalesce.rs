//! Adapter: tower-resilience-coalesce (C11)
use crate::drive::*;
use crate::sim::*;
use serde_json::{json, Value};
use tower::{Layer, Service};
use tower_resilience_coalesce::{CoalesceError, CoalesceLayer};

fn keyfn(r: &Req) -> CKey {
    CKey(r.key)
}
type Svc = <CoalesceLayer<CKey, Req, fn(&Req) -> CKey> as Layer<Inner>>::Service;
pub struct CoalesceAd {
    svc: Option<Handles<Svc>>,
    sib: Vec<Sibling>,
}
impl CoalesceAd {
    pub fn new() -> Self {
        CoalesceAd { svc: None, sib: vec![] }
    }
}
impl Adapter for CoalesceAd {
    fn name(&self) -> &'static str {
        "coalesce"
    }
    fn gen_cfg(&mut self, _rng: &mut Rng, _size: Size) -> Value {
        json!({"hm": _rng.below(4), "x": 0, "ctor": _rng.below(2), "sib": _rng.below(2)})
    }
    fn build(&mut self, cfg: &Value, sim: &mut Sim) {
        let layer: CoalesceLayer<CKey, Req, fn(&Req) -> CKey> = if cfg["ctor"].as_u64().unwrap_or(0) == 1 {
            CoalesceLayer::builder(keyfn as fn(&Req) -> CKey).name("verif").build()
        } else {
            CoalesceLayer::new(keyfn as fn(&Req) -> CKey)
        };
        // cfg.sib = 1: a second coalescer built from the same layer value has leaders of the same keys in flight
        self.sib.clear();
        if cfg["sib"].as_u64().unwrap_or(0) == 1 {
            let w2 = sibling_world();
            self.sib.push(sibling_traffic(layer.layer(Inner::new(&w2)), w2, 5));
        }
        self.svc = Some(Handles::new(layer.layer(Inner::new(&sim.w)), cfg["hm"].as_u64().unwrap_or(0)));
    }
    fn mk(&mut self, req: &Req) -> CallFut {
        let f = self.svc.as_mut().unwrap().with(|s| {
            ready_unless_parked(s);
            s.call(req.clone())
        });
        keep_alive(f, |r| match r {
            Ok(r) => Out::Ok { val: r.serial, req: r.req },
            Err(CoalesceError::Service(e)) => Out::Err { kind: format!("inner{}", e.code), val: e.serial as i64 },
            Err(CoalesceError::LeaderCancelled) => Out::Err { kind: "cancelled".into(), val: -1 },
            Err(CoalesceError::RecvError) => Out::Err { kind: "recv".into(), val: -1 },
        })
    }
    fn params(&self, _cfg: &Value, size: Size, rng: &mut Rng) -> DriveParams {
        let mut p = DriveParams::default();
        p.n = if size == Size::Quick { 6 + rng.below(8) } else { 10 + rng.below(10) };
        p.keys = 1 + rng.below(3) as u32;
        p.steps = if size == Size::Quick { 70 } else { 160 };
        p.horizon = 10;
        p.outs = vec![(GOut::Ok, 5), (GOut::Err(1), 3), (GOut::Panic, 1)];
        p.w_drop = 2;
        p.w_create = 6;
        p.w_adv = 1;
        p.max_adv = 1;
        p.spurious_pct = 5;
        p.hold = rng.pct(50);
        p.callpanic_pct = 6;
        p
    }
    fn finale(&self, _cfg: &Value) -> Vec<Value> {
        vec![json!({"e":"settle"}), json!({"e":"completeall","out":"ok"}), json!({"e":"settle"}), json!({"e":"advance","d":1}), json!({"e":"dropall"})]
    }
    fn teardown(&mut self) {
        self.svc = None;
        self.sib.clear();
    }
}
