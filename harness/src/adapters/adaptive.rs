//! Adapter: tower-resilience-adaptive service (C13, second half)
use crate::drive::*;
use crate::sim::*;
use serde_json::{json, Value};
use std::task::Poll;
use std::time::Duration;
use tower::{Layer, Service};
use tower_resilience_adaptive::{AdaptiveError, AdaptiveLimiterLayer, AdaptiveService, Aimd, Algorithm, Vegas};

pub struct AdaptiveAd {
    svc: Option<AdaptiveService<Inner, Algorithm>>,
    svc2: Option<AdaptiveService<Inner, Algorithm>>,
    two: bool,
}
impl AdaptiveAd {
    pub fn new() -> Self {
        AdaptiveAd { svc: None, svc2: None, two: false }
    }
}
fn map_res(r: Result<Resp, AdaptiveError<IErr>>) -> Out {
    match r {
        Ok(r) => Out::Ok { val: r.serial, req: r.req },
        Err(AdaptiveError::Service(e)) => Out::Err { kind: format!("inner{}", e.code), val: e.serial as i64 },
        Err(AdaptiveError::LimitReached) => Out::Err { kind: "limit".into(), val: -1 },
    }
}
impl Adapter for AdaptiveAd {
    fn name(&self) -> &'static str {
        "adaptive"
    }
    fn gen_cfg(&mut self, rng: &mut Rng, _size: Size) -> Value {
        let min = 1 + rng.below(2);
        let max = min + rng.below(4);
        json!({"kind": *rng.pick(&["aimd", "vegas"]), "min": min, "max": max, "initial": rng.below(max + 2), "inc": 1 + rng.below(2), "fnum": *rng.pick(&[0u64, 2, 3, 4]), "two": rng.below(2)})
    }
    fn build(&mut self, cfg: &Value, sim: &mut Sim) {
        let u = |k: &str| cfg[k].as_u64().unwrap_or(1) as usize;
        let alg = if cfg["kind"] == "vegas" {
            Algorithm::Vegas(Vegas::builder().initial_limit(u("initial")).min_limit(u("min")).max_limit(u("max")).build())
        } else {
            Algorithm::Aimd(
                Aimd::builder()
                    .initial_limit(u("initial"))
                    .min_limit(u("min"))
                    .max_limit(u("max"))
                    .increase_by(u("inc").max(1))
                    .decrease_factor(cfg["fnum"].as_u64().unwrap_or(2) as f64 / 4.0)
                    .latency_threshold(Duration::from_millis(3))
                    .build(),
            )
        };
        // one layer, applied twice: both services share the algorithm, each counts its own calls
        let layer = AdaptiveLimiterLayer::new(alg);
        let svc = layer.layer(Inner::new(&sim.w));
        let svc_b = layer.layer(Inner::new(&sim.w));
        self.two = cfg["two"].as_u64().unwrap_or(0) == 1;
        let (s2, s3) = (svc.clone(), svc_b.clone());
        self.svc = Some(svc);
        self.svc2 = Some(svc_b);
        sim.obs = Some(Box::new(move || {
            let mut m = Obj::new();
            m.insert("inf".into(), json!(s2.in_flight()));
            m.insert("inf2".into(), json!(s3.in_flight()));
            m.insert("limit".into(), json!(s2.limit()));
            m
        }));
    }
    fn mk(&mut self, req: &Req) -> CallFut {
        // service of caller c: 1 + c % 2 when the layer is applied twice (odd callers: the second service)
        let second = self.two && req.id % 2 == 1;
        let mut s = if second { self.svc2.as_ref().unwrap().clone() } else { self.svc.as_ref().unwrap().clone() };
        let w = futures::task::noop_waker();
        let mut cx = std::task::Context::from_waker(&w);
        match s.poll_ready(&mut cx) {
            Poll::Ready(Ok(())) => {
                let f = s.call(req.clone());
                Box::pin(async move { map_res(f.await) })
            }
            // not ready: a Tower caller must not call
            _ => Box::pin(async move { Out::Err { kind: "notready".into(), val: -1 } }),
        }
    }
    fn op(&mut self, name: &str, _ev: &Value, _sim: &mut Sim) -> (Value, Obj) {
        if name == "probe" {
            let which = _ev.get("svc").and_then(|x| x.as_u64()).unwrap_or_else(|| if self.two { 1 + (_sim.n_events as u64 % 2) } else { 1 });
            let mut s = if which == 2 { self.svc2.as_ref().unwrap().clone() } else { self.svc.as_ref().unwrap().clone() };
            let w = futures::task::noop_waker();
            let mut cx = std::task::Context::from_waker(&w);
            let r = match s.poll_ready(&mut cx) {
                Poll::Ready(Ok(())) => "ready",
                Poll::Ready(Err(_)) => "err",
                Poll::Pending => "pending",
            };
            let mut ex = Obj::new();
            ex.insert("svc".into(), json!(which));
            return (json!(r), ex);
        }
        (Value::Null, Obj::new())
    }
    fn params(&self, _cfg: &Value, size: Size, rng: &mut Rng) -> DriveParams {
        let mut p = DriveParams::default();
        p.n = if size == Size::Quick { 6 + rng.below(6) } else { 8 + rng.below(8) };
        p.steps = if size == Size::Quick { 80 } else { 200 };
        p.horizon = 60;
        p.w_op = 3;
        p.w_drop = 2;
        p.ops = vec!["probe"];
        p.max_adv = 5;
        // now and then the wrapped service's call itself panics: the call must not stay counted as in flight
        p.callpanic_pct = 5;
        p
    }
    fn finale(&self, _cfg: &Value) -> Vec<Value> {
        vec![json!({"e":"dropall"}), json!({"e":"op","name":"probe"})]
    }
    fn teardown(&mut self) {
        self.svc = None;
        self.svc2 = None;
    }
}
