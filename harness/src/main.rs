//! vh — verification harness for tower-resilience. Drives the real middleware under a
//! deterministic simulator and writes ndjson traces that TLC validates against /verif/spec.
mod adapters;
mod atomic;
mod drive;
mod insitu;
mod sim;
use drive::*;
use std::io::Write;

fn adapter(name: &str, variant: &str) -> Option<Box<dyn Adapter>> {
    let _ = variant;
    Some(match name {
        "bulkhead" => Box::new(adapters::bulkhead::BulkheadAd::new(variant)),
        "ratelimiter" => Box::new(adapters::ratelimiter::RateLimiterAd::new(variant)),
        "adaptive" => Box::new(adapters::adaptive::AdaptiveAd::new()),
        "retry" => Box::new(adapters::retry::RetryAd::new()),
        "reconnect" => Box::new(adapters::reconnect::ReconnectAd::new()),
        "timelimiter" => Box::new(adapters::timelimiter::TimeLimiterAd::new()),
        "hedge" => Box::new(adapters::hedge::HedgeAd::new()),
        "cache" => Box::new(adapters::cache::CacheAd::new()),
        "coalesce" => Box::new(adapters::coalesce::CoalesceAd::new()),
        "fallback" => Box::new(adapters::fallback::FallbackAd::new()),
        "stacks" => Box::new(adapters::stacks::StacksAd::new()),
        "executor" => Box::new(adapters::executor::ExecutorAd::new()),
        "circuitbreaker" => Box::new(adapters::circuitbreaker::CbAd::new(variant)),
        "insitu" => Box::new(adapters::insitu::InsituAd::new(variant)),
        _ => return None,
    })
}

fn arg(args: &[String], k: &str) -> Option<String> {
    args.iter().position(|a| a == k).and_then(|i| args.get(i + 1).cloned())
}

fn main() {
    let args: Vec<String> = std::env::args().collect();
    if args.len() < 3 {
        eprintln!("usage: vh <component> random|replay [--seed S] [--runs N] [--size quick|thorough] [--in F] [--finale] --out F");
        std::process::exit(2);
    }
    let comp = args[1].clone();
    let mode = args[2].clone();
    let seed: u64 = arg(&args, "--seed").and_then(|s| s.parse().ok()).unwrap_or(1);
    let runs: usize = arg(&args, "--runs").and_then(|s| s.parse().ok()).unwrap_or(100);
    let size = if arg(&args, "--size").as_deref() == Some("thorough") { Size::Thorough } else { Size::Quick };
    let outp = arg(&args, "--out").unwrap_or_else(|| "/dev/stdout".into());
    // panics inside the code under test are data, keep stderr quiet
    std::panic::set_hook(Box::new(|_| {}));
    let mut lines: Vec<String> = vec![];
    let stats;
    let variant = arg(&args, "--variant").unwrap_or_default();
    if comp == "listeners" {
        let (nr, ne) = adapters::listeners::run_listeners(&mut lines);
        stats = RunStats { runs: nr, events: ne, skipped: 0 };
    } else if comp == "chaos" {
        let (nr, ne) = if mode == "replay" {
            let input = std::fs::read_to_string(arg(&args, "--in").expect("--in")).expect("read input");
            adapters::chaos::replay(&input, &mut lines)
        } else {
            adapters::chaos::run_chaos(seed, size, &mut lines)
        };
        stats = RunStats { runs: nr, events: ne, skipped: 0 };
    } else if comp == "health" {
        let (nr, ne) = if mode == "replay" {
            let input = std::fs::read_to_string(arg(&args, "--in").expect("--in")).expect("read input");
            adapters::health::replay(&input, &mut lines)
        } else {
            adapters::health::run_health(seed, size, &mut lines)
        };
        stats = RunStats { runs: nr, events: ne, skipped: 0 };
    } else if comp == "backoff" {
        let (nr, ne) = if mode == "replay" {
            let input = std::fs::read_to_string(arg(&args, "--in").expect("--in")).expect("read input");
            adapters::backoff::replay(&input, &mut lines)
        } else {
            adapters::backoff::run_backoff(seed, size, &mut lines)
        };
        stats = RunStats { runs: nr, events: ne, skipped: 0 };
    } else if comp == "budget" || comp == "limit" {
        let (ns, ne, ex) = if mode == "replay" {
            let input = std::fs::read_to_string(arg(&args, "--in").expect("--in")).expect("read input");
            let (a, b) = adapters::budget::replay(&input, &mut lines);
            (a, b, false)
        } else if comp == "budget" {
            adapters::budget::run_budget(seed, size, &mut lines)
        } else {
            adapters::budget::run_limit(seed, size, &mut lines)
        };
        stats = RunStats { runs: ns, events: ne, skipped: 0 };
        eprintln!("{{\"exhaustive\":{}}}", ex);
    } else if comp == "insitu" && mode == "replay" {
        // a layer projection cannot be replayed by itself: its reset lines name the runs of the seeded sequence
        // (seed, run, size) and the layer; those runs are executed again and the same projection is written
        let input = std::fs::read_to_string(arg(&args, "--in").expect("--in")).expect("read input");
        let rt = tokio::runtime::Builder::new_current_thread().enable_time().start_paused(true).build().unwrap();
        let mut tot = RunStats { runs: 0, events: 0, skipped: 0 };
        for line in input.lines() {
            let Ok(v) = serde_json::from_str::<serde_json::Value>(line.trim()) else { continue };
            if v["e"] != "reset" {
                continue;
            }
            let var = format!("{}:{}", v["stack"]["stack"].as_str().unwrap_or("S1"), v["layer"].as_u64().unwrap_or(1));
            let mut ad = adapter("insitu", &var).unwrap();
            let sz = if v["size"] == "thorough" { Size::Thorough } else { Size::Quick };
            let st = rt.block_on(run_random_from(ad.as_mut(), v["seed"].as_u64().unwrap_or(1), v["run"].as_u64().unwrap_or(0) as usize, 1, sz, &mut lines));
            tot.runs += st.runs;
            tot.events += st.events;
        }
        stats = tot;
    } else if let Some(mut ad) = adapter(&comp, &variant) {
        let rt = tokio::runtime::Builder::new_current_thread().enable_time().start_paused(true).build().unwrap();
        stats = rt.block_on(async {
            match mode.as_str() {
                "random" => run_random(ad.as_mut(), seed, runs, size, &mut lines).await,
                "replay" => {
                    let input = std::fs::read_to_string(arg(&args, "--in").expect("--in")).expect("read input");
                    run_replay(ad.as_mut(), &input, args.iter().any(|a| a == "--finale"), &mut lines).await
                }
                _ => {
                    eprintln!("unknown mode");
                    std::process::exit(2);
                }
            }
        });
    } else {
        eprintln!("unknown component {}", comp);
        std::process::exit(2);
    }
    let mut f = std::io::BufWriter::new(std::fs::File::create(&outp).expect("create out"));
    for l in &lines {
        f.write_all(l.as_bytes()).unwrap();
        f.write_all(b"\n").unwrap();
    }
    f.flush().unwrap();
    eprintln!("{{\"runs\":{},\"events\":{},\"skipped\":{}}}", stats.runs, stats.events, stats.skipped);
}
