CONSTANTS
  Callers = {1,2,3,4,5,6,7,8}
  EnfC02 = TRUE
  EnfC15 = TRUE
  EnfImpl = TRUE
INIT Init
NEXT Next
POSTCONDITION Accepted
CHECK_DEADLOCK FALSE
