---- MODULE CB ----
EXTENDS Naturals, Sequences, FiniteSets, TLC
CONSTANTS CfgSet, Acts, MaxSteps
VARIABLES state, openedAt, win, recs, hoSucc, hoAdm, now, cfg, obs, steps
vars == <<state, openedAt, win, recs, hoSucc, hoAdm, now, cfg, obs, steps>>
\* cfg: [tb: BOOLEAN, n, min, thrNum, thrDen, perm, wait, slowOn: BOOLEAN, slowThr, sNum, sDen, d, e2ok: BOOLEAN]
Count(s, P(_)) == Len(SelectSeq(s, P))
IsFail(r) == r.f
IsSlow(r) == r.s
Cur == IF cfg.tb THEN recs ELSE win
Stats(s) == [total |-> Len(s), fail |-> Count(s, IsFail), slow |-> Count(s, IsSlow)]
Obs(st, s, res, inner) == [state |-> st, total |-> Len(s), fail |-> Count(s, IsFail), succ |-> Len(s) - Count(s, IsFail), slow |-> Count(s, IsSlow), res |-> res, inner |-> inner]
Init == /\ state = "closed" /\ openedAt = 0 /\ win = <<>> /\ recs = <<>> /\ hoSucc = 0 /\ hoAdm = 0 /\ now = 0
        /\ cfg \in (IF CfgSet = {} THEN {[tb |-> FALSE]} ELSE CfgSet) /\ obs = [state |-> "closed", total |-> 0, fail |-> 0, succ |-> 0, slow |-> 0, res |-> "none", inner |-> FALSE] /\ steps = 0

Prune(s, t) == SelectSeq(s, LAMBDA r : t - r.t <= cfg.d)
Push(s, r, t) == IF cfg.tb THEN Append(Prune(s, t), r)
                 ELSE LET a == Append(s, r) IN IF Len(a) > cfg.n THEN Tail(a) ELSE a
ShouldOpen(s) == LET st == Stats(s) IN
  /\ st.total >= cfg.min
  /\ (~cfg.tb => st.total >= cfg.n)
  /\ \/ st.fail * cfg.thrDen >= cfg.thrNum * st.total
     \/ (cfg.slowOn /\ st.slow * cfg.sDen >= cfg.sNum * st.total)

\* a call: admission at `now`, inner runs `dur`, then record
Call(out, slow) ==
  LET dur == IF slow THEN cfg.slowThr ELSE 0
      fail == (out = "e1") \/ (out = "e2" /\ ~cfg.e2ok)
      isSlow == cfg.slowOn /\ dur >= cfg.slowThr
      toHalf == state = "open" /\ now - openedAt >= cfg.wait
      admitted == \/ state = "closed" \/ toHalf \/ (state = "half" /\ hoAdm < cfg.perm)
      st1 == IF toHalf THEN "half" ELSE state
      s1 == IF toHalf THEN <<>> ELSE Cur
      adm1 == IF toHalf THEN 1 ELSE IF state = "half" /\ admitted THEN hoAdm + 1 ELSE hoAdm
      succ1 == IF toHalf THEN 0 ELSE hoSucc
      opened1 == IF toHalf THEN now ELSE openedAt
      t2 == now + dur
      s2 == Push(s1, [t |-> t2, f |-> fail, s |-> isSlow], t2)
  IN IF ~admitted
     THEN /\ obs' = Obs(state, Cur, "open", FALSE)
          /\ UNCHANGED <<state, openedAt, win, recs, hoSucc, hoAdm, now>>
     ELSE /\ now' = t2
          /\ LET res == IF out = "ok" THEN "ok" ELSE "err" IN
             IF st1 = "half"
             THEN IF fail
                  THEN /\ state' = "open" /\ openedAt' = t2 /\ win' = <<>> /\ recs' = <<>> /\ hoSucc' = 0 /\ hoAdm' = 0
                       /\ obs' = Obs("open", <<>>, res, TRUE)
                  ELSE IF succ1 + 1 >= cfg.perm
                       THEN /\ state' = "closed" /\ openedAt' = t2 /\ win' = <<>> /\ recs' = <<>> /\ hoSucc' = 0 /\ hoAdm' = 0
                            /\ obs' = Obs("closed", <<>>, res, TRUE)
                       ELSE /\ state' = "half" /\ openedAt' = opened1 /\ hoSucc' = succ1 + 1 /\ hoAdm' = adm1
                            /\ (IF cfg.tb THEN recs' = s2 /\ win' = win ELSE win' = s2 /\ recs' = recs)
                            /\ obs' = Obs("half", s2, res, TRUE)
             ELSE IF ShouldOpen(s2)
                  THEN /\ state' = "open" /\ openedAt' = t2 /\ win' = <<>> /\ recs' = <<>> /\ hoSucc' = 0 /\ hoAdm' = 0
                       /\ obs' = Obs("open", <<>>, res, TRUE)
                  ELSE /\ state' = st1 /\ openedAt' = opened1 /\ hoSucc' = succ1 /\ hoAdm' = adm1
                       /\ (IF cfg.tb THEN recs' = s2 /\ win' = win ELSE win' = s2 /\ recs' = recs)
                       /\ obs' = Obs(st1, s2, res, TRUE)
To(st) == IF state = st THEN /\ UNCHANGED <<state, openedAt, win, recs, hoSucc, hoAdm>> /\ obs' = Obs(state, Cur, "none", FALSE)
          ELSE /\ state' = st /\ openedAt' = now /\ win' = <<>> /\ recs' = <<>> /\ hoSucc' = 0 /\ hoAdm' = 0 /\ obs' = Obs(st, <<>>, "none", FALSE)
Step(a) ==
  /\ steps' = steps + 1 /\ UNCHANGED cfg
  /\ CASE a.op = "call" -> Call(a.out, a.slow)
       [] a.op = "adv" -> /\ now' = now + a.d /\ UNCHANGED <<state, openedAt, win, recs, hoSucc, hoAdm>> /\ obs' = Obs(state, Cur, "none", FALSE)
       [] a.op = "force_open" -> To("open") /\ UNCHANGED now
       [] a.op = "force_closed" -> To("closed") /\ UNCHANGED now
       [] a.op = "reset" -> /\ state' = "closed" /\ openedAt' = (IF state = "closed" THEN openedAt ELSE now) /\ win' = <<>> /\ recs' = <<>> /\ hoSucc' = 0 /\ hoAdm' = 0
                            /\ obs' = Obs("closed", <<>>, "none", FALSE) /\ UNCHANGED now
Next == steps < MaxSteps /\ \E a \in Acts : Step(a)
Spec == Init /\ [][Next]_vars
\* design-level checks
TypeOK == state \in {"closed", "open", "half"} /\ Len(win) <= cfg.n
HalfBound == state = "half" => hoAdm <= cfg.perm /\ hoSucc < cfg.perm
OpenHasEmptyWindow == state = "open" => Cur = <<>>
====
