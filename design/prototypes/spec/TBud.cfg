CONSTANTS
  Threads = {1,2,3,4}
INIT Init
NEXT Next
POSTCONDITION Accepted
CHECK_DEADLOCK FALSE
