---- MODULE Bulkhead ----
EXTENDS Naturals, Sequences, FiniteSets, TLC
CONSTANTS Callers, MaxSet, WaitSet, MaxTime, NONE
VARIABLES st, deadline, queue, woken, now, cfg, gate, ev
vars == <<st, deadline, queue, woken, now, cfg, gate, ev>>
view == <<st, deadline, queue, woken, now, cfg, gate>>

Holding == {c \in Callers : st[c] \in {"granted", "running"}}
Running == {c \in Callers : st[c] = "running"}
Free == cfg.max - Cardinality(Holding)
SeqToSet(s) == {s[i] : i \in 1..Len(s)}
Remove(s, x) == SelectSeq(s, LAMBDA y : y # x)

Init == /\ st = [c \in Callers |-> "idle"]
        /\ deadline = [c \in Callers |-> NONE]
        /\ queue = <<>>
        /\ woken = [c \in Callers |-> FALSE]
        /\ now = 0
        /\ cfg \in [max : MaxSet, wait : WaitSet]
        /\ gate = [c \in Callers |-> "none"]
        /\ ev = [e |-> "init"]

Create(c) == /\ st[c] = "idle"
             /\ st' = [st EXCEPT ![c] = "created"]
             /\ woken' = [woken EXCEPT ![c] = TRUE]
             /\ ev' = [e |-> "create", c |-> c]
             /\ UNCHANGED <<deadline, queue, now, cfg, gate>>

\* grant freed permits to queue heads (tokio FIFO handoff), marking them woken
Grant(stx, q, wk) ==
  LET free == cfg.max - Cardinality({c \in Callers : stx[c] \in {"granted","running"}})
  IN IF free > 0 /\ q # <<>>
     THEN <<[stx EXCEPT ![Head(q)] = "granted"], Tail(q), [wk EXCEPT ![Head(q)] = TRUE]>>
     ELSE <<stx, q, wk>>

FirstPoll(c) ==
  /\ st[c] = "created"
  /\ IF Free > 0 /\ queue = <<>>
     THEN /\ st' = [st EXCEPT ![c] = "running"]
          /\ gate' = [gate EXCEPT ![c] = "pending"]
          /\ ev' = [e |-> "poll", c |-> c, res |-> "pending", start |-> TRUE]
          /\ UNCHANGED <<deadline, queue>>
     ELSE IF cfg.wait = 0
     THEN /\ st' = [st EXCEPT ![c] = "rejected"]
          /\ ev' = [e |-> "poll", c |-> c, res |-> "timeout", start |-> FALSE]
          /\ UNCHANGED <<deadline, queue, gate>>
     ELSE /\ st' = [st EXCEPT ![c] = "waiting"]
          /\ queue' = Append(queue, c)
          /\ deadline' = [deadline EXCEPT ![c] = IF cfg.wait = NONE THEN NONE ELSE now + cfg.wait]
          /\ ev' = [e |-> "poll", c |-> c, res |-> "pending", start |-> FALSE]
          /\ UNCHANGED gate
  /\ woken' = [woken EXCEPT ![c] = FALSE]
  /\ UNCHANGED <<now, cfg>>

PollGranted(c) ==
  /\ st[c] = "granted" /\ woken[c]
  /\ st' = [st EXCEPT ![c] = "running"]
  /\ gate' = [gate EXCEPT ![c] = "pending"]
  /\ woken' = [woken EXCEPT ![c] = FALSE]
  /\ ev' = [e |-> "poll", c |-> c, res |-> "pending", start |-> TRUE]
  /\ UNCHANGED <<deadline, queue, now, cfg>>

PollTimeout(c) ==
  /\ st[c] = "waiting" /\ woken[c] /\ deadline[c] # NONE /\ now >= deadline[c]
  /\ st' = [st EXCEPT ![c] = "rejected"]
  /\ queue' = Remove(queue, c)
  /\ woken' = [woken EXCEPT ![c] = FALSE]
  /\ ev' = [e |-> "poll", c |-> c, res |-> "timeout", start |-> FALSE]
  /\ UNCHANGED <<deadline, now, cfg, gate>>

Complete(c, out) ==
  /\ st[c] = "running" /\ gate[c] = "pending"
  /\ gate' = [gate EXCEPT ![c] = out]
  /\ woken' = [woken EXCEPT ![c] = TRUE]
  /\ ev' = [e |-> "complete", c |-> c, out |-> out]
  /\ UNCHANGED <<st, deadline, queue, now, cfg>>

PollDone(c) ==
  /\ st[c] = "running" /\ woken[c] /\ gate[c] \in {"ok", "err", "panic"}
  /\ LET st1 == [st EXCEPT ![c] = "done"]
         g == Grant(st1, queue, [woken EXCEPT ![c] = FALSE])
     IN st' = g[1] /\ queue' = g[2] /\ woken' = g[3]
  /\ ev' = [e |-> "poll", c |-> c, res |-> gate[c], start |-> FALSE]
  /\ UNCHANGED <<deadline, now, cfg, gate>>

Drop(c) ==
  /\ st[c] \in {"created", "waiting", "granted", "running"}
  /\ LET st1 == [st EXCEPT ![c] = "cancelled"]
         g == Grant(st1, Remove(queue, c), [woken EXCEPT ![c] = FALSE])
     IN st' = g[1] /\ queue' = g[2] /\ woken' = g[3]
  /\ ev' = [e |-> "drop", c |-> c]
  /\ UNCHANGED <<deadline, now, cfg, gate>>

NextDeadline == {deadline[c] : c \in {x \in Callers : st[x] = "waiting" /\ deadline[x] # NONE}}
Advance ==
  /\ \A c \in Callers : ~woken[c]
  /\ now < MaxTime
  /\ now' = now + 1
  /\ woken' = [c \in Callers |-> st[c] = "waiting" /\ deadline[c] # NONE /\ now' >= deadline[c]]
  /\ ev' = [e |-> "advance", d |-> 1]
  /\ UNCHANGED <<st, deadline, queue, cfg, gate>>

Next == \/ \E c \in Callers : Create(c) \/ FirstPoll(c) \/ PollGranted(c) \/ PollTimeout(c) \/ PollDone(c) \/ Drop(c)
        \/ \E c \in Callers, out \in {"ok", "err", "panic"} : Complete(c, out)
        \/ Advance
Spec == Init /\ [][Next]_vars

InFlightLeMax == Cardinality(Running) <= cfg.max
HoldLeMax == Cardinality(Holding) <= cfg.max
WorkConserving == (\A c \in Callers : ~woken[c]) => (queue # <<>> => Free = 0)
QueueOk == SeqToSet(queue) = {c \in Callers : st[c] = "waiting"}
====
