CONSTANTS
  Callers = {1,2,3,4,5}
  EnfC01 = TRUE
  EnfC07 = TRUE
INIT Init
NEXT Next
POSTCONDITION Accepted
CHECK_DEADLOCK FALSE
