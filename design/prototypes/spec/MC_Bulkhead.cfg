CONSTANTS
  Callers = {c1, c2, c3}
  MaxSet = {1, 2}
  WaitSet = {NONE, 0, 2}
  MaxTime = 4
  NONE = NONE
INIT Init
NEXT Next
VIEW view
INVARIANTS InFlightLeMax HoldLeMax WorkConserving QueueOk
CHECK_DEADLOCK FALSE
