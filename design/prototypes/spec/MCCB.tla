---- MODULE MCCB ----
EXTENDS CB
B == {TRUE, FALSE}
Cfgs == { [tb |-> tb, n |-> n, min |-> mn, thrNum |-> th, thrDen |-> 2, perm |-> p, wait |-> 3, slowOn |-> so, slowThr |-> 2, sNum |-> 1, sDen |-> 2, d |-> dd, e2ok |-> e] :
          tb \in B, n \in {2,3}, mn \in {1,2,4}, th \in {0,1,2}, p \in {1,2}, so \in B, dd \in {2,4}, e \in B }
ActSet == { [op |-> "call", out |-> o, slow |-> s] : o \in {"ok","e1","e2"}, s \in B } \cup
          { [op |-> "adv", d |-> 1], [op |-> "adv", d |-> 3], [op |-> "force_open"], [op |-> "force_closed"], [op |-> "reset"] }
view == <<state, openedAt, win, recs, hoSucc, hoAdm, now, cfg, steps>>
====
