---- MODULE TB ----
EXTENDS Naturals, Sequences, FiniteSets, TLC, Json, IOUtils
CONSTANTS Callers, EnfC01, EnfC07
VARIABLES st, deadline, queue, now, cfg, gate, inflight, l
vars == <<st, deadline, queue, now, cfg, gate, inflight, l>>
Rec == ndJsonDeserialize(IOEnv.TRACE)
NONE == 0 - 1

Holding == {c \in Callers : st[c] \in {"granted", "running"}}
Free == cfg.max - Cardinality(Holding)
Remove(s, x) == SelectSeq(s, LAMBDA y : y # x)
G(flag, p) == flag => p

InitVals(m, w) ==
  /\ st' = [c \in Callers |-> "idle"] /\ deadline' = [c \in Callers |-> NONE] /\ queue' = <<>>
  /\ now' = 0 /\ cfg' = [max |-> m, wait |-> w] /\ gate' = [c \in Callers |-> "none"] /\ inflight' = 0
Init == /\ st = [c \in Callers |-> "idle"] /\ deadline = [c \in Callers |-> NONE] /\ queue = <<>>
        /\ now = 0 /\ cfg = [max |-> 1, wait |-> NONE] /\ gate = [c \in Callers |-> "none"] /\ inflight = 0 /\ l = 1

GrantQ(stx, q) ==
  LET free == cfg.max - Cardinality({c \in Callers : stx[c] \in {"granted","running"}})
  IN IF free > 0 /\ q # <<>> THEN <<[stx EXCEPT ![Head(q)] = "granted"], Tail(q)>> ELSE <<stx, q>>

E == Rec[l]
Ev(k) == l <= Len(Rec) /\ E.e = k /\ l' = l + 1

Reset == Ev("reset") /\ InitVals(E.max, E.wait)
Create == Ev("create") /\ st[E.c] = "idle" /\ st' = [st EXCEPT ![E.c] = "created"]
          /\ UNCHANGED <<deadline, queue, now, cfg, gate, inflight>>

\* poll outcomes; c, res, start from the event
PollAdmit(c) == \* admitted in this poll (first poll or granted)
  /\ E.start = TRUE /\ E.res = "pending"
  /\ st[c] \in {"created", "granted", "waiting"}
  /\ G(EnfC07, \/ (st[c] = "created" /\ Free > 0 /\ queue = <<>>) \/ st[c] = "granted")
  /\ st' = [st EXCEPT ![c] = "running"] /\ gate' = [gate EXCEPT ![c] = "pending"]
  /\ queue' = Remove(queue, c)
  /\ inflight' = inflight + 1
  /\ UNCHANGED <<deadline, now, cfg>>
PollEnqueue(c) ==
  /\ E.start = FALSE /\ E.res = "pending" /\ st[c] = "created"
  /\ G(EnfC07, ~(Free > 0 /\ queue = <<>>) /\ cfg.wait # 0)
  /\ st' = [st EXCEPT ![c] = "waiting"] /\ queue' = Append(queue, c)
  /\ deadline' = [deadline EXCEPT ![c] = IF cfg.wait = NONE THEN NONE ELSE now + cfg.wait]
  /\ UNCHANGED <<now, cfg, gate, inflight>>
PollReject(c) ==
  /\ E.start = FALSE /\ E.res = "timeout" /\ st[c] \in {"created", "waiting"}
  /\ G(EnfC07, \/ (st[c] = "created" /\ cfg.wait = 0 /\ ~(Free > 0 /\ queue = <<>>))
               \/ (st[c] = "waiting" /\ deadline[c] # NONE /\ now = deadline[c]))
  /\ st' = [st EXCEPT ![c] = "rejected"] /\ queue' = Remove(queue, c)
  /\ UNCHANGED <<deadline, now, cfg, gate, inflight>>
PollDone(c) ==
  /\ E.start = FALSE /\ st[c] = "running" /\ gate[c] \in {"ok", "err", "panic"} /\ E.res = gate[c]
  /\ (LET g == GrantQ([st EXCEPT ![c] = "done"], queue) IN st' = g[1] /\ queue' = g[2])
  /\ inflight' = inflight - 1
  /\ UNCHANGED <<deadline, now, cfg, gate>>
PollStutter(c) ==
  /\ E.start = FALSE /\ E.res = "pending"
  /\ \/ (st[c] = "waiting" /\ G(EnfC07, deadline[c] = NONE \/ now < deadline[c]))
     \/ (st[c] = "running" /\ gate[c] = "pending")
  /\ UNCHANGED <<st, deadline, queue, now, cfg, gate, inflight>>
PollEv == Ev("poll") /\ E.t = now /\ LET c == E.c IN PollAdmit(c) \/ PollEnqueue(c) \/ PollReject(c) \/ PollDone(c) \/ PollStutter(c)

Complete == Ev("complete") /\ st[E.c] = "running" /\ gate[E.c] = "pending" /\ gate' = [gate EXCEPT ![E.c] = E.out]
            /\ UNCHANGED <<st, deadline, queue, now, cfg, inflight>>
Drop == Ev("drop") /\ st[E.c] \in {"created", "waiting", "granted", "running"}
        /\ (LET g == GrantQ([st EXCEPT ![E.c] = "cancelled"], Remove(queue, E.c)) IN st' = g[1] /\ queue' = g[2])
        /\ inflight' = (IF st[E.c] = "running" THEN inflight - 1 ELSE inflight)
        /\ UNCHANGED <<deadline, now, cfg, gate>>
Quiescent == \A c \in Callers : /\ st[c] \notin {"created", "granted"}
                                /\ ~(st[c] = "waiting" /\ deadline[c] # NONE /\ now >= deadline[c])
                                /\ ~(st[c] = "running" /\ gate[c] \in {"ok","err","panic"})
Advance == Ev("advance") /\ G(EnfC07, Quiescent /\ (queue # <<>> => Free = 0)) /\ now' = now + E.d /\ E.t = now'
           /\ UNCHANGED <<st, deadline, queue, cfg, gate, inflight>>

Next == (Reset \/ Create \/ PollEv \/ Complete \/ Drop \/ Advance) /\ G(EnfC01, inflight' <= cfg'.max)
Spec == Init /\ [][Next]_vars
Accepted == IF TLCGet("stats").diameter - 1 = Len(Rec) THEN TRUE
            ELSE Print(<<"REJECTED", TLCGet("stats").diameter, Rec[TLCGet("stats").diameter]>>, FALSE)
====
