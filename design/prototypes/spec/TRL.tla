---- MODULE TRL ----
EXTENDS Naturals, Integers, Sequences, FiniteSets, TLC, Json, IOUtils
CONSTANTS Callers, EnfC02, EnfC15, EnfImpl
VARIABLES st, firstPoll, now, cfg, fx, lg, ct, wnd, adm, lastDecision, l
\* fx: fixed window [avail, ps]; lg: sliding log (seq of admission times); ct: counter [prev, cur, bs]
\* wnd: C02 witness [start, count, last]; adm: seq of admission times (observer, sliding log C02)
vars == <<st, firstPoll, now, cfg, fx, lg, ct, wnd, adm, lastDecision, l>>
Rec == ndJsonDeserialize(IOEnv.TRACE)
E == Rec[l]
G(flag, p) == flag => p
NEG == 0 - 1000000
InitVals(c) ==
  /\ st' = [x \in Callers |-> "idle"] /\ firstPoll' = [x \in Callers |-> 0] /\ now' = 0 /\ cfg' = c
  /\ fx' = [avail |-> c.L, ps |-> 0] /\ lg' = <<>> /\ ct' = [prev |-> 0, cur |-> 0, bs |-> 0]
  /\ wnd' = [start |-> NEG, count |-> 0, last |-> NEG] /\ adm' = <<>> /\ lastDecision' = NEG
Init == /\ st = [x \in Callers |-> "idle"] /\ firstPoll = [x \in Callers |-> 0] /\ now = 0 /\ cfg = [win |-> "fixed", L |-> 1, P |-> 1, T |-> 0]
        /\ fx = [avail |-> 1, ps |-> 0] /\ lg = <<>> /\ ct = [prev |-> 0, cur |-> 0, bs |-> 0]
        /\ wnd = [start |-> NEG, count |-> 0, last |-> NEG] /\ adm = <<>> /\ lastDecision = NEG /\ l = 1
Ev(k) == l <= Len(Rec) /\ E.e = k /\ l' = l + 1
Reset == Ev("reset") /\ InitVals(E.cfg)
Create == Ev("create") /\ st[E.c] = "idle" /\ st' = [st EXCEPT ![E.c] = "created"]
          /\ UNCHANGED <<firstPoll, now, cfg, fx, lg, ct, wnd, adm, lastDecision>>

\* ---- implementation-shaped try_acquire; result: <<"permit"|"wait"|"reject", wait, fx', lg', ct'>>
FixedTry ==
  LET f1 == IF now - fx.ps >= cfg.P THEN [avail |-> cfg.L, ps |-> now] ELSE fx
      w == cfg.P - (now - f1.ps)
  IN IF f1.avail > 0 THEN <<"permit", 0, [f1 EXCEPT !.avail = @ - 1], lg, ct>>
     ELSE IF w > cfg.T THEN <<"reject", 0, f1, lg, ct>> ELSE <<"wait", w, f1, lg, ct>>
LogTry ==
  LET l1 == SelectSeq(lg, LAMBDA t : now - t < cfg.P)
  IN IF Len(l1) < cfg.L THEN <<"permit", 0, fx, Append(l1, now), ct>>
     ELSE LET w == (Head(l1) + cfg.P) - now IN
          IF w > cfg.T THEN <<"reject", 0, fx, l1, ct>> ELSE <<"wait", w, fx, l1, ct>>
CtRot ==
  LET el == now - ct.bs IN
  IF el >= cfg.P THEN (IF el >= 2 * cfg.P THEN [prev |-> 0, cur |-> 0, bs |-> now] ELSE [prev |-> ct.cur, cur |-> 0, bs |-> now]) ELSE ct
\* weighted < L  <=>  prev*(P-el) + cur*P < L*P   (el clamped to P)
CtTry ==
  LET c1 == CtRot
      el == IF now - c1.bs > cfg.P THEN cfg.P ELSE now - c1.bs
      lhs == c1.prev * (cfg.P - el) + c1.cur * cfg.P
      rhs == cfg.L * cfg.P
  IN IF lhs < rhs THEN {<<"permit", 0, fx, lg, [c1 EXCEPT !.cur = @ + 1]>>}
     ELSE IF lhs = rhs THEN {<<"permit", 0, fx, lg, [c1 EXCEPT !.cur = @ + 1]>>, <<"nopermit", 0, fx, lg, c1>>}
     ELSE {<<"nopermit", 0, fx, lg, c1>>}
Try == IF cfg.win = "fixed" THEN {FixedTry} ELSE IF cfg.win = "log" THEN {LogTry} ELSE CtTry

\* ---- C02 witnesses over admissions
WndAdmit(w, t) == \* set of possible successor witnesses (angelic)
  (IF w.count < cfg.L THEN {[w EXCEPT !.count = @ + 1, !.last = t]} ELSE {})
  \cup (LET b == IF w.start + cfg.P > w.last + 1 THEN w.start + cfg.P ELSE w.last + 1
        IN IF b <= t THEN {[start |-> b, count |-> 1, last |-> t]} ELSE {})
LogOk(a, t) == IF Len(a) < cfg.L THEN TRUE ELSE t - a[Len(a) - cfg.L + 1] >= cfg.P

Admit(c, r) == \* bookkeeping common to an admission
  /\ fx' = r[3] /\ lg' = r[4] /\ ct' = r[5]
  /\ st' = [st EXCEPT ![c] = "done"]
  /\ adm' = Append(adm, now)
  /\ IF cfg.win = "log" THEN wnd' = wnd /\ G(EnfC02, LogOk(adm, now))
     ELSE IF EnfC02 THEN wnd' \in WndAdmit(wnd, now) ELSE wnd' = wnd

PollEv ==
  /\ Ev("poll") /\ E.t = now
  /\ LET c == E.c IN
     \/ \* first poll
        /\ st[c] = "created" /\ firstPoll' = [firstPoll EXCEPT ![c] = now] /\ lastDecision' = now
        /\ \E r \in Try :
             \/ /\ r[1] = "permit" /\ E.res = "ok" /\ E.start = TRUE /\ Admit(c, r)
             \/ /\ r[1] \in {"wait", "nopermit"} /\ E.res = "pending" /\ E.start = FALSE
                /\ G(EnfC15, cfg.T > 0)
                /\ st' = [st EXCEPT ![c] = "sleeping"] /\ fx' = r[3] /\ lg' = r[4] /\ ct' = r[5] /\ UNCHANGED <<wnd, adm>>
             \/ /\ r[1] \in {"reject", "nopermit"} /\ E.res = "limited" /\ E.start = FALSE
                /\ st' = [st EXCEPT ![c] = "done"] /\ fx' = r[3] /\ lg' = r[4] /\ ct' = r[5] /\ UNCHANGED <<wnd, adm>>
     \/ \* poll after the sleep
        /\ st[c] = "sleeping" /\ E.res # "pending" /\ UNCHANGED firstPoll /\ lastDecision' = now
        /\ G(EnfC15, now - firstPoll[c] <= cfg.T /\ now > firstPoll[c])
        /\ \E r \in Try :
             \/ /\ r[1] = "permit" /\ E.res = "ok" /\ E.start = TRUE /\ Admit(c, r)
             \/ /\ r[1] # "permit" /\ E.res = "limited" /\ E.start = FALSE
                /\ st' = [st EXCEPT ![c] = "done"] /\ fx' = r[3] /\ lg' = r[4] /\ ct' = r[5] /\ UNCHANGED <<wnd, adm>>
     \/ \* spurious poll of a sleeper
        /\ st[c] = "sleeping" /\ E.res = "pending" /\ E.start = FALSE
        /\ UNCHANGED <<st, firstPoll, fx, lg, ct, wnd, adm, lastDecision>>
  /\ UNCHANGED <<now, cfg>>
Drop == Ev("drop") /\ st[E.c] \in {"created", "sleeping"} /\ st' = [st EXCEPT ![E.c] = "done"]
        /\ UNCHANGED <<firstPoll, now, cfg, fx, lg, ct, wnd, adm, lastDecision>>
Advance == Ev("advance") /\ now' = now + E.d /\ E.t = now'
           /\ G(EnfC15, \A c \in Callers : st[c] # "created")
           /\ UNCHANGED <<st, firstPoll, cfg, fx, lg, ct, wnd, adm, lastDecision>>
Next == Reset \/ Create \/ PollEv \/ Drop \/ Advance
Accepted == IF TLCGet("stats").diameter - 1 = Len(Rec) THEN TRUE
            ELSE Print(<<"REJECTED", TLCGet("stats").diameter, Rec[TLCGet("stats").diameter]>>, FALSE)
====
