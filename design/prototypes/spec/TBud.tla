---- MODULE TBud ----
EXTENDS Naturals, Sequences, FiniteSets, TLC, Json, IOUtils, SequencesExt
CONSTANTS Threads
VARIABLES tokens, pend, cfg, grants, deposits, l
\* pend[t]: [s |-> "none"] | [s |-> "called", op] | [s |-> "lin", op, res]
vars == <<tokens, pend, cfg, grants, deposits, l>>
Rec == ndJsonDeserialize(IOEnv.TRACE)
E == Rec[l]
Min2(a, b) == IF a < b THEN a ELSE b
Init == tokens = 0 /\ pend = [t \in Threads |-> [s |-> "none"]] /\ cfg = [initial |-> 0, max |-> 0] /\ grants = 0 /\ deposits = 0 /\ l = 1
Ev(k) == l <= Len(Rec) /\ E.e = k /\ l' = l + 1
Reset == Ev("reset") /\ tokens' = E.initial /\ cfg' = [initial |-> E.initial, max |-> E.max]
         /\ pend' = [t \in Threads |-> [s |-> "none"]] /\ grants' = 0 /\ deposits' = 0
Call == Ev("call") /\ pend[E.t].s = "none" /\ pend' = [pend EXCEPT ![E.t] = [s |-> "called", op |-> E.op]]
        /\ UNCHANGED <<tokens, cfg, grants, deposits>>
Step == Ev("step") /\ UNCHANGED <<tokens, pend, cfg, grants, deposits>>   \* internal atomic step of the code: no abstract effect
\* apply the abstract operation of thread t to state <<tok, pd, g, d>>
Apply(s, t) ==
  LET tok == s[1] pd == s[2] IN
  IF pd[t].op = "W"
  THEN IF tok >= 1 THEN <<tok - 1, [pd EXCEPT ![t] = [s |-> "lin", op |-> "W", res |-> "true"]], s[3] + 1, s[4]>>
       ELSE <<tok, [pd EXCEPT ![t] = [s |-> "lin", op |-> "W", res |-> "false"]], s[3], s[4]>>
  ELSE <<Min2(tok + 1, cfg.max), [pd EXCEPT ![t] = [s |-> "lin", op |-> "D", res |-> "unit"]], s[3], s[4] + 1>>
RECURSIVE ApplyAll(_, _)
ApplyAll(s, q) == IF q = <<>> THEN s ELSE ApplyAll(Apply(s, Head(q)), Tail(q))
Called == {t \in Threads : pend[t].s = "called"}
Orders == UNION {SetToSeqs(T) : T \in SUBSET Called}
Ret == /\ Ev("ret")
       /\ \E q \in Orders :
            LET s == ApplyAll(<<tokens, pend, grants, deposits>>, q) IN
            /\ s[2][E.t].s = "lin" /\ s[2][E.t].res = E.res
            /\ tokens' = s[1] /\ grants' = s[3] /\ deposits' = s[4]
            /\ pend' = [s[2] EXCEPT ![E.t] = [s |-> "none"]]
            \* C08: conservation and ceiling, and at quiescence the observed balance is the abstract one
            /\ s[3] + s[1] <= cfg.initial + s[4]
            /\ s[1] <= cfg.max
            /\ ((\A t \in Threads : pend'[t].s = "none") => E.bal = s[1])
       /\ UNCHANGED cfg
Next == Reset \/ Call \/ Step \/ Ret
Accepted == IF TLCGet("stats").diameter - 1 = Len(Rec) THEN TRUE
            ELSE Print(<<"REJECTED", TLCGet("stats").diameter, Rec[TLCGet("stats").diameter]>>, FALSE)
====
