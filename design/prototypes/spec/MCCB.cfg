CONSTANTS
  CfgSet <- Cfgs
  Acts <- ActSet
  MaxSteps = 6
INIT Init
NEXT Next
VIEW view
INVARIANTS TypeOK HalfBound OpenHasEmptyWindow
CHECK_DEADLOCK FALSE
