CONSTANTS
  CfgSet = {}
  Acts = {}
  MaxSteps = 0
INIT TInit
NEXT TNext
POSTCONDITION Accepted
CHECK_DEADLOCK FALSE
