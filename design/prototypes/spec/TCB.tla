---- MODULE TCB ----
EXTENDS CB, Json, IOUtils
VARIABLE l
Rec == ndJsonDeserialize(IOEnv.TRACE)
tvars == <<state, openedAt, win, recs, hoSucc, hoAdm, now, cfg, obs, steps, l>>
TInit == Init /\ l = 1
E == Rec[l]
TReset == /\ l <= Len(Rec) /\ E.e = "reset" /\ l' = l + 1
          /\ state' = "closed" /\ openedAt' = 0 /\ win' = <<>> /\ recs' = <<>> /\ hoSucc' = 0 /\ hoAdm' = 0 /\ now' = 0
          /\ cfg' = E.cfg /\ steps' = 0
          /\ obs' = [state |-> "closed", total |-> 0, fail |-> 0, succ |-> 0, slow |-> 0, res |-> "none", inner |-> FALSE]
Act == IF E.op = "call" THEN [op |-> "call", out |-> E.out, slow |-> E.slow]
       ELSE IF E.op = "adv" THEN [op |-> "adv", d |-> E.d] ELSE [op |-> E.op]
TStep == /\ l <= Len(Rec) /\ E.e = "step" /\ l' = l + 1
         /\ Step(Act)
         /\ obs' = E.obs
TNext == TReset \/ TStep
Accepted == IF TLCGet("stats").diameter - 1 = Len(Rec) THEN TRUE
            ELSE Print(<<"REJECTED", TLCGet("stats").diameter, Rec[TLCGet("stats").diameter]>>, FALSE)
====
