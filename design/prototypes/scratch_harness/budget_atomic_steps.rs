use std::sync::mpsc::{channel, Receiver, Sender};
use std::sync::Arc;
use tower_resilience_core::verif::sched;
use tower_resilience_retry::{RetryBudget, TokenBucketBudget, AimdBudget};

enum Msg { AtYield(usize, &'static str), Done(usize, String) }

/// Run `ops` (one per thread) under schedule prefix `prefix`; afterwards pick lowest enabled thread.
/// Returns (events, choice points: Vec<(chosen, enabled set)>).
fn run(budget: Arc<dyn RetryBudget>, ops: &[char], prefix: &[usize]) -> (Vec<String>, Vec<(usize, Vec<usize>)>) {
    let n = ops.len();
    let (tx, rx): (Sender<Msg>, Receiver<Msg>) = channel();
    let mut gos: Vec<Sender<()>> = vec![];
    let mut handles = vec![];
    for (tid, &op) in ops.iter().enumerate() {
        let (gtx, grx) = channel::<()>();
        gos.push(gtx);
        let tx = tx.clone(); let b = budget.clone();
        handles.push(std::thread::spawn(move || {
            let tx2 = tx.clone();
            let grx = std::rc::Rc::new(grx); let g2 = grx.clone();
            sched::install(Box::new(move |opk| { tx2.send(Msg::AtYield(tid, opk)).unwrap(); g2.recv().unwrap(); }));
            grx.recv().unwrap(); // wait for "call" permission
            let r = if op == 'W' { format!("{}", b.try_withdraw()) } else { b.deposit(); "unit".to_string() };
            sched::uninstall();
            tx.send(Msg::Done(tid, r)).unwrap();
        }));
    }
    // status: 0 = not started, 1 = at yield, 2 = done
    let mut status = vec![0u8; n];
    let mut events = vec![]; let mut choices = vec![]; let mut step = 0;
    loop {
        let enabled: Vec<usize> = (0..n).filter(|&t| status[t] != 2).collect();
        if enabled.is_empty() { break; }
        let t = if step < prefix.len() { prefix[step] } else { enabled[0] };
        assert!(enabled.contains(&t));
        choices.push((t, enabled.clone())); step += 1;
        if status[t] == 0 { events.push(format!("{{\"e\":\"call\",\"t\":{},\"op\":\"{}\"}}", t + 1, ops[t])); }
        gos[t].send(()).unwrap();
        match rx.recv().unwrap() {
            Msg::AtYield(tt, k) => { assert_eq!(tt, t); status[t] = 1; events.push(format!("{{\"e\":\"step\",\"t\":{},\"next\":\"{}\",\"bal\":{}}}", t + 1, k, budget.balance())); }
            Msg::Done(tt, r) => { assert_eq!(tt, t); status[t] = 2; events.push(format!("{{\"e\":\"ret\",\"t\":{},\"op\":\"{}\",\"res\":\"{}\",\"bal\":{}}}", t + 1, ops[t], r, budget.balance())); }
        }
    }
    for h in handles { h.join().unwrap(); }
    (events, choices)
}
fn main() {
    let kind = std::env::args().nth(1).unwrap_or("tb".into());
    let ops: Vec<char> = std::env::args().nth(2).unwrap_or("WWD".into()).chars().collect();
    let initial: usize = std::env::args().nth(3).and_then(|s| s.parse().ok()).unwrap_or(1);
    let max: usize = 2;
    let mk = || -> Arc<dyn RetryBudget> { if kind == "tb" { Arc::new(TokenBucketBudget::new(0.0, max, initial)) } else { Arc::new(AimdBudget::new(1, max, 1, 1, 0.5)) } };
    // stateless DFS over schedules
    let mut stack: Vec<Vec<usize>> = vec![vec![]];
    let mut nsched = 0;
    while let Some(prefix) = stack.pop() {
        let b = mk();
        let init_bal = b.balance();
        let (events, choices) = run(b, &ops, &prefix);
        nsched += 1;
        println!("{{\"e\":\"reset\",\"kind\":\"{}\",\"initial\":{},\"max\":{},\"n\":{}}}", kind, init_bal, max, ops.len());
        for e in &events { println!("{}", e); }
        for i in prefix.len()..choices.len() {
            let (chosen, enabled) = &choices[i];
            for &alt in enabled { if alt > *chosen { let mut p: Vec<usize> = choices[..i].iter().map(|c| c.0).collect(); p.push(alt); stack.push(p); } }
        }
    }
    eprintln!("schedules: {}", nsched);
}
