mod rl;
use futures::future::BoxFuture;
use std::future::Future;
use std::pin::Pin;
use std::sync::{Arc, Mutex};
use std::task::{Context, Poll};
use std::time::Duration;
use tower::{Layer, Service};
use tower_resilience_circuitbreaker::{CircuitBreakerLayer, CircuitState, SlidingWindowType, CircuitBreaker};

type Gate = tokio::sync::oneshot::Sender<Result<u32, String>>;
#[derive(Clone, Default)]
struct Gated { gate: Arc<Mutex<Option<Gate>>>, calls: Arc<Mutex<u32>> }
impl Service<u32> for Gated {
    type Response = u32; type Error = String; type Future = BoxFuture<'static, Result<u32, String>>;
    fn poll_ready(&mut self, _: &mut Context<'_>) -> Poll<Result<(), String>> { Poll::Ready(Ok(())) }
    fn call(&mut self, _req: u32) -> Self::Future {
        let (tx, rx) = tokio::sync::oneshot::channel();
        *self.gate.lock().unwrap() = Some(tx); *self.calls.lock().unwrap() += 1;
        Box::pin(async move { rx.await.unwrap_or(Err("dropped".into())) })
    }
}
struct Rng(u64);
impl Rng { fn next(&mut self) -> u64 { self.0 ^= self.0 << 13; self.0 ^= self.0 >> 7; self.0 ^= self.0 << 17; self.0 } fn below(&mut self, n: usize) -> usize { (self.next() % n as u64) as usize } fn b(&mut self) -> bool { self.below(2) == 1 } }
#[derive(Clone, Debug)]
struct Cfg { tb: bool, n: usize, min: usize, thr_num: u32, perm: usize, wait: u64, slow_on: bool, slow_thr: u64, d: u64, e2ok: bool }
fn st(s: CircuitState) -> &'static str { match s { CircuitState::Closed => "closed", CircuitState::Open => "open", CircuitState::HalfOpen => "half" } }

async fn run<C>(mut svc: CircuitBreaker<Gated, C>, inner: Gated, cfg: &Cfg, rng: &mut Rng, out: &mut String, len: usize)
where C: tower_resilience_circuitbreaker::classifier::FailureClassifier<u32, String> + Send + Sync + 'static {
    let w = futures::task::noop_waker(); let mut cx = Context::from_waker(&w);
    for _ in 0..len {
        let k = rng.below(10);
        let (act, res, inner_called): (String, &str, bool) = if k < 6 {
            let o = ["ok", "e1", "e2"][rng.below(3)]; let slow = rng.below(3) == 0;
            let before = *inner.calls.lock().unwrap();
            let mut fut: Pin<Box<dyn Future<Output = _> + Send>> = Box::pin(svc.call(1));
            let r = match fut.as_mut().poll(&mut cx) {
                Poll::Ready(Err(e)) => { assert!(e.is_circuit_open()); "open" }
                Poll::Ready(Ok(_)) => unreachable!(),
                Poll::Pending => {
                    if slow { tokio::time::advance(Duration::from_millis(cfg.slow_thr)).await; }
                    let tx = inner.gate.lock().unwrap().take().unwrap();
                    let _ = tx.send(if o == "ok" { Ok(1) } else { Err(o.to_string()) });
                    match fut.as_mut().poll(&mut cx) { Poll::Ready(Ok(_)) => "ok", Poll::Ready(Err(_)) => "err", Poll::Pending => panic!("still pending") }
                }
            };
            (format!("\"op\":\"call\",\"out\":\"{}\",\"slow\":{}", o, slow), r, *inner.calls.lock().unwrap() > before)
        } else if k < 8 { let d = [1u64, 3][rng.below(2)]; tokio::time::advance(Duration::from_millis(d)).await; (format!("\"op\":\"adv\",\"d\":{}", d), "none", false) }
        else { match rng.below(3) { 0 => { svc.force_open().await; ("\"op\":\"force_open\"".to_string(), "none", false) } 1 => { svc.force_closed().await; ("\"op\":\"force_closed\"".into(), "none", false) } _ => { svc.reset().await; ("\"op\":\"reset\"".into(), "none", false) } } };
        let s = svc.state().await; assert_eq!(s, svc.state_sync()); assert_eq!(svc.is_open(), s == CircuitState::Open);
        let m = svc.metrics().await; assert_eq!(m.state, s);
        out.push_str(&format!("{{\"e\":\"step\",{},\"obs\":{{\"state\":\"{}\",\"total\":{},\"fail\":{},\"succ\":{},\"slow\":{},\"res\":\"{}\",\"inner\":{}}}}}\n", act, st(s), m.total_calls, m.failure_count, m.success_count, m.slow_call_count, res, inner_called));
    }
}
fn main() {
    if std::env::var("RL").is_ok() { let seed: u64 = std::env::args().nth(1).and_then(|s| s.parse().ok()).unwrap_or(1); let runs: usize = std::env::args().nth(2).and_then(|s| s.parse().ok()).unwrap_or(10); rl::main(seed, runs); return; }
    let seed: u64 = std::env::args().nth(1).and_then(|s| s.parse().ok()).unwrap_or(1);
    let runs: usize = std::env::args().nth(2).and_then(|s| s.parse().ok()).unwrap_or(10);
    let len: usize = std::env::args().nth(3).and_then(|s| s.parse().ok()).unwrap_or(30);
    let mut rng = Rng(seed.wrapping_mul(0x9E3779B97F4A7C15).wrapping_add(1));
    let rt = tokio::runtime::Builder::new_current_thread().enable_time().start_paused(true).build().unwrap();
    let mut out = String::new();
    rt.block_on(async {
        for _ in 0..runs {
            let cfg = Cfg { tb: rng.b(), n: 2 + rng.below(2), min: [1, 2, 4][rng.below(3)], thr_num: rng.below(3) as u32, perm: 1 + rng.below(2), wait: 3, slow_on: rng.b(), slow_thr: 2, d: [2, 4][rng.below(2)], e2ok: rng.b() };
            out.push_str(&format!("{{\"e\":\"reset\",\"cfg\":{{\"tb\":{},\"n\":{},\"min\":{},\"thrNum\":{},\"thrDen\":2,\"perm\":{},\"wait\":{},\"slowOn\":{},\"slowThr\":{},\"sNum\":1,\"sDen\":2,\"d\":{},\"e2ok\":{}}}}}\n", cfg.tb, cfg.n, cfg.min, cfg.thr_num, cfg.perm, cfg.wait, cfg.slow_on, cfg.slow_thr, cfg.d, cfg.e2ok));
            let inner = Gated::default();
            let mut b = CircuitBreakerLayer::builder().sliding_window_size(cfg.n).minimum_number_of_calls(cfg.min).failure_rate_threshold(cfg.thr_num as f64 / 2.0)
                .permitted_calls_in_half_open(cfg.perm).wait_duration_in_open(Duration::from_millis(cfg.wait));
            if cfg.tb { b = b.sliding_window_type(SlidingWindowType::TimeBased).sliding_window_duration(Duration::from_millis(cfg.d)); }
            if cfg.slow_on { b = b.slow_call_duration_threshold(Duration::from_millis(cfg.slow_thr)).slow_call_rate_threshold(0.5); }
            if cfg.e2ok {
                let layer = b.failure_classifier(|r: &Result<u32, String>| match r { Ok(_) => false, Err(e) if e == "e2" => false, Err(_) => true }).build();
                run(layer.layer(inner.clone()), inner, &cfg, &mut rng, &mut out, len).await;
            } else {
                run(b.build().layer(inner.clone()), inner, &cfg, &mut rng, &mut out, len).await;
            }
        }
    });
    print!("{}", out);
}
