use std::future::Future;
use std::pin::Pin;
use std::sync::atomic::{AtomicBool, AtomicUsize, Ordering};
use std::sync::Arc;
use std::task::{Context, Poll, Wake, Waker};
use std::time::Duration;
use tower::{Layer, Service};
use tower_resilience_ratelimiter::{RateLimiterLayer, WindowType};
struct Flag(AtomicBool);
impl Wake for Flag { fn wake(self: Arc<Self>) { self.0.store(true, Ordering::SeqCst); } }
pub struct Rng(pub u64);
impl Rng { pub fn next(&mut self) -> u64 { self.0 ^= self.0 << 13; self.0 ^= self.0 >> 7; self.0 ^= self.0 << 17; self.0 } pub fn below(&mut self, n: usize) -> usize { (self.next() % n as u64) as usize } }
pub fn main(seed: u64, runs: usize) {
    let mut rng = Rng(seed.wrapping_mul(0x9E3779B97F4A7C15).wrapping_add(1));
    let rt = tokio::runtime::Builder::new_current_thread().enable_time().start_paused(true).build().unwrap();
    let mut out = String::new();
    rt.block_on(async {
        for _ in 0..runs {
            let n = 8usize;
            let win = ["fixed", "log", "counter"][rng.below(3)];
            let l = 1 + rng.below(3); let p = [3u64, 4, 5][rng.below(3)]; let t = [0u64, 2, 4, 5, 9][rng.below(5)];
            out.push_str(&format!("{{\"e\":\"reset\",\"cfg\":{{\"win\":\"{}\",\"L\":{},\"P\":{},\"T\":{}}}}}\n", win, l, p, t));
            let starts = Arc::new(AtomicUsize::new(0)); let s2 = starts.clone();
            let inner = tower::service_fn(move |_r: u32| { s2.fetch_add(1, Ordering::SeqCst); async move { Ok::<u32, String>(1) } });
            let svc = RateLimiterLayer::builder().limit_for_period(l).refresh_period(Duration::from_millis(p)).timeout_duration(Duration::from_millis(t))
                .window_type(match win { "fixed" => WindowType::Fixed, "log" => WindowType::SlidingLog, _ => WindowType::SlidingCounter }).build().layer(inner);
            let t0 = tokio::time::Instant::now();
            let mut futs: Vec<Option<Pin<Box<dyn Future<Output = Result<u32, tower_resilience_ratelimiter::RateLimiterServiceError<String>>> + Send>>>> = (0..n).map(|_| None).collect();
            let flags: Vec<Arc<Flag>> = (0..n).map(|_| Arc::new(Flag(AtomicBool::new(false)))).collect();
            let mut created = 0usize;
            for _ in 0..60 {
                let flagged: Vec<usize> = (0..n).filter(|&i| futs[i].is_some() && flags[i].0.load(Ordering::SeqCst)).collect();
                let live: Vec<usize> = (0..n).filter(|&i| futs[i].is_some()).collect();
                let mut acts: Vec<(u8, usize)> = vec![];
                if created < n { acts.push((0, created)); acts.push((0, created)); }
                for &c in &flagged { acts.push((1, c)); acts.push((1, c)); acts.push((1, c)); }
                for &c in &live { if rng.below(10) == 0 { acts.push((3, c)); } }
                if flagged.is_empty() && t0.elapsed().as_millis() < 30 { acts.push((4, 0)); acts.push((4, 0)); acts.push((4, 0)); }
                if acts.is_empty() { break; }
                let (k, a) = acts[rng.below(acts.len())];
                match k {
                    0 => { let mut s = svc.clone(); futs[a] = Some(Box::pin(s.call(a as u32 + 1))); flags[a].0.store(true, Ordering::SeqCst); created += 1; out.push_str(&format!("{{\"e\":\"create\",\"c\":{}}}\n", a + 1)); }
                    1 => {
                        flags[a].0.store(false, Ordering::SeqCst);
                        let w = Waker::from(flags[a].clone()); let mut cx = Context::from_waker(&w);
                        let before = starts.load(Ordering::SeqCst);
                        let r = futs[a].as_mut().unwrap().as_mut().poll(&mut cx);
                        let start = starts.load(Ordering::SeqCst) > before;
                        let res = match r { Poll::Pending => "pending", Poll::Ready(Ok(_)) => { futs[a] = None; "ok" } Poll::Ready(Err(_)) => { futs[a] = None; "limited" } };
                        out.push_str(&format!("{{\"e\":\"poll\",\"c\":{},\"res\":\"{}\",\"start\":{},\"t\":{}}}\n", a + 1, res, start, t0.elapsed().as_millis()));
                    }
                    3 => { futs[a] = None; out.push_str(&format!("{{\"e\":\"drop\",\"c\":{}}}\n", a + 1)); }
                    _ => { tokio::time::advance(Duration::from_millis(1)).await; out.push_str(&format!("{{\"e\":\"advance\",\"d\":1,\"t\":{}}}\n", t0.elapsed().as_millis())); }
                }
            }
        }
    });
    print!("{}", out);
}
