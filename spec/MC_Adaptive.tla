---------------------------- MODULE MC_Adaptive ----------------------------
EXTENDS Adaptive, Json
MCCfgSet == {cf \in [min : {1, 2}, initial : {1, 2, 3}, max : {2, 3}, two : {0, 1}] : cf.min <= cf.max}
MCOuts == {"ok", "e1", "panic"}
Inv == NeverOverLimitAtAdmission /\ ZeroWhenIdle /\ LimitInBounds
\* transition tour: every transition of the (small) model, printed with the level of its source state
TourDump == PrintT(<<"EDGE", TLCGet("level"), ToJson([f |-> view, t |-> view', cfg |-> cfg, ev |-> ev'])>>)
GenPrint == PrintT(<<"GEN", TLCGet("level"), ToJson([cfg |-> cfg, ev |-> ev])>>)
=============================================================================
