---------------------------- MODULE MC_Adaptive ----------------------------
EXTENDS Adaptive, Json
MCCfgSet == {cf \in [min : {1, 2}, initial : {1, 2, 3}, max : {2, 3}] : cf.min <= cf.max}
MCOuts == {"ok", "e1", "panic"}
Inv == NeverOverLimitAtAdmission /\ ZeroWhenIdle /\ LimitInBounds
GenPrint == PrintT(<<"GEN", TLCGet("level"), ToJson([cfg |-> cfg, ev |-> ev])>>)
=============================================================================
