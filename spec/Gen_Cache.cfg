CONSTANTS
  Callers = {1, 2, 3, 4, 5, 6, 7, 8}
  CfgSet <- MCCfgSet
  MaxTime = 12
  Outs <- MCOuts
  Keys <- MCKeys
  Extended = FALSE
INIT Init
NEXT Next

INVARIANT GenPrint
CHECK_DEADLOCK FALSE
