CONSTANTS
  Callers = {1, 2, 3, 4}
  CfgSet <- MCCfgSet
  Enforce <- MCEnforce
  MaxTime = 10
  MCMode = TRUE
INIT Init
NEXT Next

INVARIANT GenPrint
CHECK_DEADLOCK FALSE
