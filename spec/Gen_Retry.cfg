CONSTANTS
  Callers = {1, 2, 3}
  CfgSet <- MCCfgSet
  MaxTime = 12
  Outs <- MCOuts
  Keys <- Keys4
INIT Init
NEXT Next

INVARIANT GenPrint
CHECK_DEADLOCK FALSE
