CONSTANTS
  Callers = {1, 2, 3}
  CfgSet <- MCCfgSet
  MaxTime = 1
  Outs <- MCOuts
  Keys <- MCKeys
INIT Init
NEXT Next
VIEW view
ACTION_CONSTRAINT TourDump
CHECK_DEADLOCK FALSE
