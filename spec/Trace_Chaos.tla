---------------------------- MODULE Trace_Chaos ----------------------------
EXTENDS Chaos, Json, IOUtils
VARIABLE l
Rec == ndJsonDeserialize(IOEnv.TRACE)
E == Rec[l]
Is(k) == l <= Len(Rec) /\ E.e = k /\ l' = l + 1
TInit == InitWith([er |-> 0, lr |-> 0, mn |-> 0, mx |-> 0, seeded |-> 1]) /\ ev = [e |-> "init"] /\ l = 1
TReset == Is("reset") /\ Reset(E.cfg)
TReq == Is("req") /\ Req(E.inst, E.k, E.err, E.d, E.ns, E.intact)
TNext == TReset \/ TReq
Accepted ==
  LET d == TLCGet("stats").diameter IN
  IF d - 1 = Len(Rec) THEN TRUE ELSE Print(<<"REJECTED", d, ToJson(Rec[d])>>, FALSE)
=============================================================================
