---------------------------- MODULE MC_BudgetImpl ----------------------------
EXTENDS BudgetImpl
MCCfgSet == {cf \in [kind : {"tb", "aimd"}, initial : {0, 1, 2}, max : {1, 2, 3}, cost : {1, 2}, amount : {1, 2}, minb : {1, 2}, fnum : {0, 2, 3, 4}] :
              /\ cf.initial <= cf.max /\ cf.minb <= cf.max
              /\ (cf.kind = "tb" => cf.minb = 1 /\ cf.fnum = 2 /\ cf.cost = 1 /\ cf.amount = 1)
              /\ (cf.kind = "aimd" => cf.initial = cf.max)}
Ops == {"W", "D"}
Inv == Conservation /\ BalanceLeMax /\ LimitInBounds
=============================================================================
