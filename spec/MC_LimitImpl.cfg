CONSTANTS
  Threads = {1, 2, 3}
  CfgSet <- MCCfgSet
  OpSet <- Ops
INIT Init
NEXT Next
INVARIANT LimitInBounds
CHECK_DEADLOCK FALSE
