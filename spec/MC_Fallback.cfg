CONSTANTS
  Callers = {1, 2, 3}
  CfgSet <- MCCfgSet
  Outs <- MCOuts
INIT Init
NEXT Next
VIEW view
INVARIANT Inv
CHECK_DEADLOCK FALSE
