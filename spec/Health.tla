---------------------------- MODULE Health ----------------------------
(* tower-resilience-healthcheck (C18): per-resource threshold machine and selection.
   cfg = [n (resources 1..n), ft (failure threshold), sth (success threshold), strat ("first"|"rr"|"prefer")].
   A check round consumes one result per resource: "h" healthy, "d" degraded, "u" unhealthy,
   "k" unknown, "s" slower than the check timeout (= failed), "x" hanging (= failed at the timeout).
   cfg.trig = 1: health triggers (feature "triggers", healthcheck/src/triggers.rs) are registered: a counting
   trigger and a real circuit breaker (circuitbreaker/src/health_integration.rs). A published status change whose
   trigger class (healthy | degraded | unhealthy-or-unknown) changes notifies every trigger once; the breaker is
   forced open by "unhealthy", forced closed by "healthy", untouched by "degraded". Deliberate deviations of the
   code, modelled as they are: unknown -> unhealthy notifies nobody (same class), so a resource that starts failing
   never opens the breaker until it has been healthy or degraded once; degraded leaves an open breaker open. *)
EXTENDS Integers, Sequences, FiniteSets, TLC
CONSTANTS CfgSet, Results, MaxRes, MaxRounds
VARIABLES cfg, status, cf, cs, rounds, lastElig, lastKind, cnt, brk, ev
vars == <<cfg, status, cf, cs, rounds, lastElig, lastKind, cnt, brk, ev>>
view == <<cfg, status, cf, cs, rounds, lastElig, lastKind, cnt, brk>>
Res == 1..MaxRes
R == 1..cfg.n
InitWith(cf0) ==
  /\ cfg = cf0 /\ status = [r \in Res |-> "unknown"] /\ cf = [r \in Res |-> 0] /\ cs = [r \in Res |-> 0]
  /\ rounds = 0 /\ lastElig = {} /\ lastKind = "none" /\ cnt = [r \in Res |-> 0] /\ brk = "closed"
Init == (\E c \in CfgSet : InitWith(c)) /\ ev = [e |-> "init"]
Reset(c) ==
  /\ cfg' = c /\ status' = [r \in Res |-> "unknown"] /\ cf' = [r \in Res |-> 0] /\ cs' = [r \in Res |-> 0]
  /\ rounds' = 0 /\ lastElig' = {} /\ lastKind' = "none" /\ cnt' = [r \in Res |-> 0] /\ brk' = "closed" /\ ev' = [e |-> "reset"]
Failed(x) == x \in {"u", "s", "x"}     \* "x": a check that hangs and is cut off by the check timeout
NewCf(r, x) == IF Failed(x) THEN cf[r] + 1 ELSE IF x \in {"h", "d"} THEN 0 ELSE cf[r]
NewCs(r, x) == IF x \in {"h", "d"} THEN cs[r] + 1 ELSE IF Failed(x) THEN 0 ELSE cs[r]
\* unhealthy only after ft consecutive failed/timed-out checks; healthy only on a healthy check completing
\* a run of >= sth non-failing checks; degraded at once; unknown changes nothing
NewStatus(r, x) ==
  IF x = "h" THEN (IF NewCs(r, x) >= cfg.sth THEN "healthy" ELSE status[r])
  ELSE IF x = "d" THEN "degraded"
  ELSE IF Failed(x) THEN (IF NewCf(r, x) >= cfg.ft THEN "unhealthy" ELSE status[r])
  ELSE status[r]
\* health triggers: the class a status is reported as, the resources whose class changes in a round
Class(s) == IF s = "healthy" THEN "H" ELSE IF s = "degraded" THEN "D" ELSE "U"
Trig == "trig" \in DOMAIN cfg /\ cfg.trig = 1
Flips(res, cl) == {r \in R : Class(status[r]) # Class(NewStatus(r, res[r])) /\ Class(NewStatus(r, res[r])) = cl}
\* the breaker after a round: untouched without an H or U notification; otherwise what the last of them asked for
\* (the order of notifications of different resources within one round is not fixed)
BrkAfter(res) == (IF Flips(res, "U") # {} THEN {"open"} ELSE {}) \cup (IF Flips(res, "H") # {} THEN {"closed"} ELSE {})
\* res: function R -> Results
Round(res) ==
  /\ status' = [r \in Res |-> IF r \in R THEN NewStatus(r, res[r]) ELSE status[r]]
  /\ cf' = [r \in Res |-> IF r \in R THEN NewCf(r, res[r]) ELSE cf[r]]
  /\ cs' = [r \in Res |-> IF r \in R THEN NewCs(r, res[r]) ELSE cs[r]]
  /\ rounds' = rounds + 1
  /\ ev' = [e |-> "round", status |-> [r \in R |-> NewStatus(r, res[r])], cf |-> [r \in R |-> NewCf(r, res[r])],
            cs |-> [r \in R |-> NewCs(r, res[r])], checks |-> [r \in R |-> 1]]
           @@ (IF Trig THEN [tu |-> Cardinality(Flips(res, "U")), th |-> Cardinality(Flips(res, "H")),
                             td |-> Cardinality(Flips(res, "D"))] ELSE <<>>)
  /\ (IF Trig /\ BrkAfter(res) # {} THEN brk' \in BrkAfter(res) ELSE brk' = brk)
  /\ UNCHANGED <<cfg, lastElig, lastKind, cnt>>
\* an observation in the middle of a round: the checks of the resources in fin have ended, the others are still running.
\* What has ended is published already - a result does not wait for the slower checks of other resources.
Mid(res, fin, shown) ==
  /\ \A r \in fin : shown[r] = NewStatus(r, res[r])
  /\ ev' = [e |-> "mid"]
  /\ UNCHANGED <<cfg, status, cf, cs, rounds, lastElig, lastKind, cnt, brk>>
Eligible(kind) == IF kind = "healthy" THEN {r \in R : status[r] = "healthy"} ELSE {r \in R : status[r] \in {"healthy", "degraded"}}
\* selection: nothing iff nobody qualifies; otherwise a resource that qualifies now;
\* round robin: within a run of selections over an unchanged eligible set the counts differ by at most one
Select(kind, got) ==
  LET E == Eligible(kind)
      same == (E = lastElig /\ kind = lastKind)
      c1 == [r \in Res |-> IF r = got THEN (IF same THEN cnt[r] + 1 ELSE 1) ELSE (IF same THEN cnt[r] ELSE 0)]
  IN /\ (IF E = {} THEN got = 0 ELSE got \in E)
     /\ (cfg.strat = "rr" /\ E # {}) => \A a, b \in E : c1[a] - c1[b] <= 1
     /\ cnt' = c1 /\ lastElig' = E /\ lastKind' = kind
     /\ ev' = [e |-> "sel", kind |-> kind, got |-> got]
     /\ UNCHANGED <<cfg, status, cf, cs, rounds, brk>>
\* model checking: the implementation's own choice functions
Pick(kind) ==
  LET E == Eligible(kind) IN
  IF E = {} THEN {0}
  ELSE IF cfg.strat = "rr" THEN E           \* any start offset; evenness is the guard above
  ELSE IF cfg.strat = "prefer" /\ kind = "usable" /\ \E r \in E : status[r] = "healthy"
       THEN {CHOOSE r \in E : status[r] = "healthy" /\ \A q \in E : status[q] = "healthy" => r <= q}
  ELSE {CHOOSE r \in E : \A q \in E : r <= q}
Next ==
  \/ (rounds < MaxRounds /\ \E res \in [R -> Results] : Round(res))
  \/ \E kind \in {"healthy", "usable"} : \E g \in Pick(kind) : Select(kind, g)
Spec == Init /\ [][Next]_vars
\* C18 at design level
CountersExclusive == \A r \in R : cf[r] = 0 \/ cs[r] = 0
\* a resource whose last check failed below the threshold keeps its old status; one whose run reaches it is unhealthy
FailRunPublished == \A r \in R : cf[r] >= cfg.ft => status[r] = "unhealthy"
\* triggers, one resource: a healthy resource never sits behind a breaker its own health check opened, and the
\* breaker is open only if the resource has been reported unhealthy since it was last reported healthy
TrigHealthyClosed == (Trig /\ cfg.n = 1 /\ status[1] = "healthy") => brk = "closed"
TrigOpenOnlyAfterUnhealthy == (Trig /\ brk = "open") => \E r \in R : status[r] # "healthy"
\* C18 as action properties: a status flips only at its thresholds
FlipsOnlyAtThresholds ==
  [][\A r \in R :
       /\ (status'[r] = "unhealthy" /\ status[r] # "unhealthy") => cf'[r] >= cfg.ft
       /\ (status'[r] = "healthy" /\ status[r] # "healthy") => (cs'[r] >= cfg.sth /\ cs'[r] = cs[r] + 1)
       /\ (status'[r] = "unknown") => status[r] = "unknown"]_vars
=============================================================================
