---------------------------- MODULE Trace_TimeLimiter ----------------------------
EXTENDS TimeLimiter, Json, IOUtils
VARIABLE l
Rec == ndJsonDeserialize(IOEnv.TRACE)
E == Rec[l]
Matches(x, r) == \A k \in DOMAIN x : k \in DOMAIN r /\ r[k] = x[k]
Is(k) == l <= Len(Rec) /\ E.e = k /\ l' = l + 1
TInit == InitWith([T |-> 1, perReq |-> 0, cancel |-> 1, ord |-> 0, lazy |-> 0]) /\ ev = [e |-> "init"] /\ l = 1
TReset == Is("reset") /\ Reset(E.cfg)
TCreate == Is("create") /\ (Create(E.c, E.key) \/ CreateEager(E.c, E.key)) /\ Matches(ev', E)
TPoll == Is("poll") /\ PollAny(E.c) /\ Matches(ev', E)
TComplete == Is("complete") /\ (Complete(E.c, E.out) \/ CompleteEarly(E.c, E.out)) /\ Matches(ev', E)
TDrop == Is("drop") /\ Drop(E.c) /\ Matches(ev', E)
TAdvance == Is("advance") /\ Advance(E.d) /\ Matches(ev', E)
TNext == TReset \/ TCreate \/ TPoll \/ TComplete \/ TDrop \/ TAdvance
Accepted ==
  LET d == TLCGet("stats").diameter IN
  IF d - 1 = Len(Rec) THEN TRUE ELSE Print(<<"REJECTED", d, ToJson(Rec[d])>>, FALSE)
=============================================================================
