CONSTANTS
  Callers = {1, 2}
  CfgSet <- MCCfgSet
  MaxTime = 10
  Outs <- MCOuts
INIT Init
NEXT Next
VIEW view
INVARIANT CallsBounded
CONSTRAINT Bound
CHECK_DEADLOCK FALSE
