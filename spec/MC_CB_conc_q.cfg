CONSTANTS
  Callers = {1, 2, 3}
  CfgSet <- ConcCfgSetQ
  Enforce <- MCEnforce
  MaxTime = 4
  Outs <- Outs2
  Reuse = FALSE
  Ops <- FOps
  AdvSet = {1}
INIT Init
NEXT Next
VIEW view
INVARIANT Inv
CHECK_DEADLOCK FALSE
