---------------------------- MODULE Executor ----------------------------
(* tower-resilience-executor (part of C20's transparency clause, and growth): Service::call
   spawns the inner call on the executor and returns a future on its result.  The inner call
   starts when the spawned task first runs, its result (or error) comes back unchanged, a
   panicking inner call surfaces as TaskCancelled, and dropping the caller does not cancel
   the spawned call (it runs to completion in the background). *)
EXTENDS Integers, Sequences, FiniteSets, TLC
CONSTANTS Callers, Outs
VARIABLES st, gout, gid, ngate, ev
vars == <<st, gout, gid, ngate, ev>>
view == <<st, gout, gid, ngate>>
InitS == st = [c \in Callers |-> "idle"] /\ gout = [c \in Callers |-> "none"] /\ gid = [c \in Callers |-> 0] /\ ngate = 0
Init == InitS /\ ev = [e |-> "init"]
Reset == st' = [c \in Callers |-> "idle"] /\ gout' = [c \in Callers |-> "none"] /\ gid' = [c \in Callers |-> 0] /\ ngate' = 0 /\ ev' = [e |-> "reset"]
\* st: running (caller alive, inner in flight or delivered) / bg (caller gone, inner still running) / done
Create(c) ==
  /\ st[c] = "idle" /\ st' = [st EXCEPT ![c] = "running"] /\ gout' = [gout EXCEPT ![c] = "pending"]
  /\ gid' = [gid EXCEPT ![c] = ngate + 1] /\ ngate' = ngate + 1
  /\ ev' = [e |-> "create", c |-> c, res |-> "created", ns |-> 1, si |-> ngate + 1, sc |-> c]    \* the spawned task starts the call
Complete(c, o) ==
  /\ st[c] \in {"running", "bg"} /\ gout[c] = "pending" /\ gout' = [gout EXCEPT ![c] = o]
  /\ st' = (IF st[c] = "bg" THEN [st EXCEPT ![c] = "done"] ELSE st)
  /\ ev' = [e |-> "complete", c |-> c, i |-> gid[c], out |-> o, nd |-> 1]                          \* consumed by the task at once
  /\ UNCHANGED <<gid, ngate>>
Poll(c) ==
  /\ st[c] = "running"
  /\ IF gout[c] = "pending" THEN (ev' = [e |-> "poll", c |-> c, res |-> "pending", ns |-> 0] /\ UNCHANGED st)
     ELSE /\ st' = [st EXCEPT ![c] = "done"]
          /\ ev' = (IF gout[c] = "ok" THEN [res |-> "ok", val |-> gid[c], rq |-> c]
                    ELSE IF gout[c] = "panic" THEN [res |-> "err", kind |-> "taskcancelled"]
                    ELSE [res |-> "err", kind |-> "inner1", val |-> gid[c]]) @@ [e |-> "poll", c |-> c, ns |-> 0]
  /\ UNCHANGED <<gout, gid, ngate>>
Drop(c) ==
  /\ st[c] = "running" /\ st' = [st EXCEPT ![c] = IF gout[c] = "pending" THEN "bg" ELSE "done"]
  /\ ev' = [e |-> "drop", c |-> c, ns |-> 0, ndr |-> 0]                                            \* the spawned call is not cancelled
  /\ UNCHANGED <<gout, gid, ngate>>
Advance(d) == ev' = [e |-> "advance", d |-> d] /\ UNCHANGED <<st, gout, gid, ngate>>
Next == \/ \E c \in Callers : Create(c) \/ Poll(c) \/ Drop(c)
        \/ \E c \in Callers, o \in Outs : Complete(c, o)
Spec == Init /\ [][Next]_vars
ExactlyOnce == ngate = Cardinality({c \in Callers : st[c] # "idle"})
=============================================================================
