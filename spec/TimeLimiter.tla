---------------------------- MODULE TimeLimiter ----------------------------
(* tower-resilience-timelimiter (C06).  cfg = [T, perReq (1: the timeout of a request is its
   key, in ms), cancel (1: the inner call is dropped at the deadline; 0: it runs on in a
   spawned task), ord].  The deadline is firstPoll + T.  At an instant where the inner result
   and the deadline coincide either outcome is allowed. *)
EXTENDS Integers, Sequences, FiniteSets, TLC
CONSTANTS Callers, CfgSet, MaxTime, Outs, Keys
VARIABLES cfg, now, st, key, deadline, doneAt, gout, gid, ngate, ev
vars == <<cfg, now, st, key, deadline, doneAt, gout, gid, ngate, ev>>
view == <<cfg, now, st, key, deadline, doneAt, gout, gid, ngate>>
\* cfg.T >= 1000000 stands for Duration::MAX ("no deadline"), fixed or per request
Tof(c) == IF cfg.T >= 1000000 THEN cfg.T ELSE IF cfg.perReq = 1 THEN key[c] ELSE cfg.T
Cancel == cfg.cancel = 1
InitWith(cf) ==
  /\ cfg = cf /\ now = 0 /\ st = [c \in Callers |-> "idle"] /\ key = [c \in Callers |-> 1]
  /\ deadline = [c \in Callers |-> 0] /\ doneAt = [c \in Callers |-> 0] /\ gout = [c \in Callers |-> "none"] /\ gid = [c \in Callers |-> 0] /\ ngate = 0
Init == (\E cf \in CfgSet : InitWith(cf)) /\ ev = [e |-> "init"]
Reset(cf) ==
  /\ cfg' = cf /\ now' = 0 /\ st' = [c \in Callers |-> "idle"] /\ key' = [c \in Callers |-> 1]
  /\ deadline' = [c \in Callers |-> 0] /\ doneAt' = [c \in Callers |-> 0] /\ gout' = [c \in Callers |-> "none"] /\ gid' = [c \in Callers |-> 0] /\ ngate' = 0
  /\ ev' = [e |-> "reset"]
Create(c, k) ==
  /\ st[c] = "idle" /\ st' = [st EXCEPT ![c] = "created"] /\ key' = [key EXCEPT ![c] = k]
  /\ ev' = [e |-> "create", c |-> c, key |-> k, t |-> now, res |-> "created", ns |-> 0, nd |-> 0, ndr |-> 0]
  /\ UNCHANGED <<cfg, now, deadline, doneAt, gout, gid, ngate>>
\* st: running = outer call pending, inner in flight; "bg" = outer resolved by timeout, inner still running detached
TimeoutEv(c, started, dropped) == [e |-> "poll", c |-> c, t |-> now, res |-> "err", kind |-> "timeout", ns |-> started, nd |-> 0, ndr |-> dropped]
FirstPoll(c) ==
  /\ st[c] = "created"
  /\ gid' = [gid EXCEPT ![c] = ngate + 1] /\ ngate' = ngate + 1 /\ gout' = [gout EXCEPT ![c] = "pending"]
  /\ deadline' = [deadline EXCEPT ![c] = now + Tof(c)]
  /\ IF Tof(c) = 0
     THEN \* the deadline is now: timeout at once; cancel mode drops the inner call it just started
          /\ st' = [st EXCEPT ![c] = IF Cancel THEN "done" ELSE "bg"]
          /\ ev' = [si |-> ngate + 1, sc |-> c] @@ TimeoutEv(c, 1, IF Cancel THEN 1 ELSE 0)
     ELSE /\ st' = [st EXCEPT ![c] = "running"]
          /\ ev' = [e |-> "poll", c |-> c, t |-> now, res |-> "pending", ns |-> 1, si |-> ngate + 1, sc |-> c, nd |-> 0, ndr |-> 0]
  /\ UNCHANGED <<cfg, now, key, doneAt>>
\* environment resolves the inner call; a detached inner call is consumed by its task at once
Complete(c, o) ==
  /\ st[c] \in {"running", "bg"} /\ gout[c] = "pending"
  /\ gout' = [gout EXCEPT ![c] = o] /\ doneAt' = [doneAt EXCEPT ![c] = now]
  /\ st' = (IF st[c] = "bg" THEN [st EXCEPT ![c] = "done"] ELSE st)
  /\ ev' = [e |-> "complete", c |-> c, i |-> gid[c], out |-> o, t |-> now, ns |-> 0, nd |-> (IF Cancel THEN 0 ELSE 1), ndr |-> 0]
  /\ UNCHANGED <<cfg, now, key, deadline, gid, ngate>>
\* an inner result: a response or an error of either code (passed on unchanged); "panic" is not a result
Have(c) == gout[c] \in {"ok", "e1", "e2"}
ResultEv(c) ==
  (IF gout[c] = "ok" THEN [res |-> "ok", val |-> gid[c], rq |-> c]
   ELSE [res |-> "err", kind |-> (IF gout[c] = "e2" THEN "inner2" ELSE "inner1"), val |-> gid[c]])
  @@ [e |-> "poll", c |-> c, t |-> now, ns |-> 0, nd |-> (IF Cancel THEN 1 ELSE 0), ndr |-> 0]
\* The property is silent on whether the inner call starts in Service::call or at the first poll (the deadline
\* counts from the first poll either way): "created1" = inner call started, timer not armed yet.
CreateEager(c, k) ==
  /\ st[c] = "idle" /\ st' = [st EXCEPT ![c] = "created1"] /\ key' = [key EXCEPT ![c] = k]
  /\ gid' = [gid EXCEPT ![c] = ngate + 1] /\ ngate' = ngate + 1 /\ gout' = [gout EXCEPT ![c] = "pending"]
  /\ ev' = [e |-> "create", c |-> c, key |-> k, t |-> now, res |-> "created", ns |-> 1, si |-> ngate + 1, sc |-> c, nd |-> 0, ndr |-> 0]
  /\ UNCHANGED <<cfg, now, deadline, doneAt>>
CompleteEarly(c, o) ==
  /\ st[c] = "created1" /\ gout[c] = "pending" /\ gout' = [gout EXCEPT ![c] = o] /\ doneAt' = [doneAt EXCEPT ![c] = now]
  /\ ev' = [e |-> "complete", c |-> c, i |-> gid[c], out |-> o, t |-> now, ns |-> 0, nd |-> 0, ndr |-> 0]
  /\ UNCHANGED <<cfg, now, st, key, deadline, gid, ngate>>
\* first poll of an eagerly started call: the timer is armed now; an inner result that is already there is passed on
\* (cancel mode: by this poll; detached mode: the task takes it over in this poll and the next poll returns it)
FirstPollEager(c) ==
  /\ st[c] = "created1"
  /\ deadline' = [deadline EXCEPT ![c] = now + Tof(c)]
  /\ LET have == Have(c) IN
     IF Cancel
     THEN IF have THEN (st' = [st EXCEPT ![c] = "done"] /\ ev' = ResultEv(c))
          ELSE IF Tof(c) = 0 THEN (st' = [st EXCEPT ![c] = "done"] /\ ev' = TimeoutEv(c, 0, 1))
          ELSE (st' = [st EXCEPT ![c] = "running"] /\ ev' = [e |-> "poll", c |-> c, t |-> now, res |-> "pending", ns |-> 0, nd |-> 0, ndr |-> 0])
     ELSE IF Tof(c) = 0
          THEN (st' = [st EXCEPT ![c] = IF have THEN "done" ELSE "bg"] /\ ev' = [nd |-> IF have THEN 1 ELSE 0] @@ TimeoutEv(c, 0, 0))
          ELSE (st' = [st EXCEPT ![c] = "running"] /\ ev' = [e |-> "poll", c |-> c, t |-> now, res |-> "pending", ns |-> 0, nd |-> (IF have THEN 1 ELSE 0), ndr |-> 0])
  /\ UNCHANGED <<cfg, now, key, doneAt, gout, gid, ngate>>
Lazy == "lazy" \in DOMAIN cfg /\ cfg.lazy = 1      \* runs in which the executor may poll late (cancel mode only)
PollResolve(c) ==
  /\ st[c] = "running"
  /\ \/ /\ Have(c) /\ (now <= deadline[c] \/ Lazy)   \* inner result available (by the deadline, if polled in time)
        /\ st' = [st EXCEPT ![c] = "done"] /\ ev' = ResultEv(c)
     \/ /\ (now = deadline[c] \/ (Lazy /\ now > deadline[c]))           \* not (or only just) finished at the deadline
        /\ (Lazy => ~(Have(c) /\ doneAt[c] < deadline[c]))   \* finished before the deadline: never a timeout, however late the poll
        /\ IF Cancel THEN (st' = [st EXCEPT ![c] = "done"] /\ ev' = TimeoutEv(c, 0, 1))        \* inner call dropped here
           ELSE (st' = [st EXCEPT ![c] = IF gout[c] = "pending" THEN "bg" ELSE "done"] /\ ev' = TimeoutEv(c, 0, 0))
  /\ UNCHANGED <<cfg, now, key, deadline, doneAt, gout, gid, ngate>>
\* cancel mode: the inner call is polled inside the caller's own future, so its panic is the caller's (in-situ runs,
\* where the environment of the time limiter is another layer; C06's own runs inject no panics)
PollPanic(c) ==
  /\ st[c] = "running" /\ gout[c] = "panic" /\ Cancel
  /\ st' = [st EXCEPT ![c] = "done"]
  /\ ev' = [e |-> "poll", c |-> c, t |-> now, res |-> "panic", ns |-> 0, nd |-> 1, ndr |-> 0]
  /\ UNCHANGED <<cfg, now, key, deadline, doneAt, gout, gid, ngate>>
PollStutter(c) ==
  /\ st[c] = "running" /\ gout[c] = "pending" /\ now < deadline[c]
  /\ ev' = [e |-> "poll", c |-> c, t |-> now, res |-> "pending", ns |-> 0, nd |-> 0, ndr |-> 0]
  /\ UNCHANGED <<cfg, now, st, key, deadline, doneAt, gout, gid, ngate>>
Drop(c) ==
  /\ st[c] \in {"created", "running", "created1"}
  /\ st' = [st EXCEPT ![c] = IF st[c] = "running" /\ ~Cancel /\ gout[c] = "pending" THEN "bg" ELSE "done"]
  /\ ev' = [e |-> "drop", c |-> c, t |-> now, ns |-> 0, nd |-> 0, ndr |-> (IF (st[c] = "running" /\ Cancel) \/ st[c] = "created1" THEN 1 ELSE 0)]
  /\ UNCHANGED <<cfg, now, key, deadline, doneAt, gout, gid, ngate>>
Quiescent == \A c \in Callers : st[c] # "created" /\ st[c] # "created1" /\ ~(st[c] = "running" /\ (gout[c] # "pending" \/ now >= deadline[c]))
Advance(d) ==
  /\ d > 0 /\ (Lazy \/ (Quiescent /\ \A c \in Callers : st[c] = "running" => now + d <= deadline[c]))
  /\ now' = now + d /\ ev' = [e |-> "advance", d |-> d, t |-> now + d, ns |-> 0, nd |-> 0, ndr |-> 0]
  /\ UNCHANGED <<cfg, st, key, deadline, doneAt, gout, gid, ngate>>
PollAny(c) == FirstPoll(c) \/ PollResolve(c) \/ PollStutter(c) \/ FirstPollEager(c) \/ PollPanic(c)
Next ==
  \/ \E c \in Callers : (\E k \in Keys : Create(c, k)) \/ FirstPoll(c) \/ PollResolve(c) \/ Drop(c)
  \/ \E c \in Callers, o \in Outs : Complete(c, o)
  \/ (now < MaxTime /\ Advance(1))
Spec == Init /\ [][Next]_vars
\* C06 at design level: nobody is still unresolved past its deadline
ResolvedByDeadline == \A c \in Callers : st[c] = "running" => now <= deadline[c]
=============================================================================
