CONSTANTS
  Callers = {1}
  CfgSet <- MCCfgSet
  MaxTime = 10
  Outs <- MCOuts
INIT Init
NEXT Next
VIEW view
CONSTRAINT Bound
ACTION_CONSTRAINT TourDump
CHECK_DEADLOCK FALSE
