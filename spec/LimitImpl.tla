---------------------------- MODULE LimitImpl ----------------------------
(* AIMD and Vegas limit updates at the grain of atomic loads and stores (C13): racy by
   design (load; compute; store), yet every stored value is clamped.  Vegas' RTT arithmetic
   is floating point and irrelevant to the bound: the outcome +1 / -1 / keep is chosen
   nondeterministically. *)
EXTENDS Integers, TLC
CONSTANTS Threads, CfgSet, OpSet
VARIABLES cfg, op, limit, pc, loc
vars == <<cfg, op, limit, pc, loc>>
Min2(a, b) == IF a < b THEN a ELSE b
Max2(a, b) == IF a > b THEN a ELSE b
Clamp(x) == Max2(cfg.min, Min2(x, cfg.max))
Init == /\ cfg \in CfgSet /\ op \in [Threads -> OpSet] /\ limit = Clamp(cfg.initial)
        /\ pc = [t \in Threads |-> "load"] /\ loc = [t \in Threads |-> 0]
Load(t) == pc[t] = "load" /\ loc' = [loc EXCEPT ![t] = limit] /\ pc' = [pc EXCEPT ![t] = "store"] /\ UNCHANGED <<cfg, op, limit>>
NewLimits(t) ==
  IF op[t] = "S" THEN (IF cfg.kind = "aimd" THEN {Min2(loc[t] + cfg.inc, cfg.max)}
                       ELSE {Min2(loc[t] + 1, cfg.max), Max2(loc[t] - 1, cfg.min), loc[t]})
  ELSE (IF cfg.kind = "aimd" THEN {Max2((loc[t] * cfg.fnum) \div 4, cfg.min)} ELSE {Max2(loc[t] \div 2, cfg.min)})
Store(t) == pc[t] = "store" /\ limit' \in NewLimits(t) /\ pc' = [pc EXCEPT ![t] = "load"]      \* the thread may run another operation
            /\ UNCHANGED <<cfg, op, loc>>
Next == \E t \in Threads : Load(t) \/ Store(t)
Spec == Init /\ [][Next]_vars
LimitInBounds == cfg.min <= limit /\ limit <= cfg.max
=============================================================================
