---------------------------- MODULE Cache ----------------------------
(* tower-resilience-cache (C10): reference cache with TTL and three eviction policies.
   The lookup happens inside Service::call (Create); a hit resolves at its first poll with
   the stored response, a miss starts exactly one inner call; ok responses are inserted by
   the poll that sees them.  cfg = [max, ttl (-1 = none), pol ("lru"|"lfu"|"fifo"), shared (0|1)].
   Two services: with shared = 1 both use store 1, otherwise service s uses store s
   (service of caller c: 1 + c % 2).  LFU ties are broken by any minimum. *)
EXTENDS Integers, Sequences, FiniteSets, TLC
CONSTANTS Callers, CfgSet, MaxTime, Outs, Keys, Extended
VARIABLES cfg, now, st, key, hitVal, gout, gid, ngate, val, at, ord, freq, cnt, ev
vars == <<cfg, now, st, key, hitVal, gout, gid, ngate, val, at, ord, freq, cnt, ev>>
view == <<cfg, now, st, key, hitVal, gout, gid, ngate, val, at, ord, freq, cnt>>
\* cnt: listener events the cache emits (extended profile): hits, misses, evictions.  The code emits an
\* eviction event whenever the store was full before an insert, also when the insert only updates a key.
Lis(c) == IF Extended THEN [lis |-> c] ELSE <<>>
Stores == {1, 2}
StoreOf(c) == IF cfg.shared = 1 THEN 1 ELSE 1 + (c % 2)
\* val[s][k] = 0: absent; ord[s]: recency (lru, least recent first) or insertion (fifo) order; freq[s][k]: lfu use count
Present(s) == {k \in Keys : val[s][k] # 0}
Fresh(s, k) == cfg.ttl < 0 \/ now - at[s][k] <= cfg.ttl
Without(q, k) == SelectSeq(q, LAMBDA x : x # k)
InitWith(cf) ==
  /\ cfg = cf /\ now = 0 /\ st = [c \in Callers |-> "idle"] /\ key = [c \in Callers |-> 1] /\ hitVal = [c \in Callers |-> 0]
  /\ gout = [c \in Callers |-> "none"] /\ gid = [c \in Callers |-> 0] /\ ngate = 0
  /\ val = [s \in Stores |-> [k \in Keys |-> 0]] /\ at = [s \in Stores |-> [k \in Keys |-> 0]]
  /\ ord = [s \in Stores |-> <<>>] /\ freq = [s \in Stores |-> [k \in Keys |-> 0]]
  /\ cnt = [hit |-> 0, miss |-> 0, evict |-> 0]
Init == (\E cf \in CfgSet : InitWith(cf)) /\ ev = [e |-> "init"]
Reset(cf) ==
  /\ cfg' = cf /\ now' = 0 /\ st' = [c \in Callers |-> "idle"] /\ key' = [c \in Callers |-> 1] /\ hitVal' = [c \in Callers |-> 0]
  /\ gout' = [c \in Callers |-> "none"] /\ gid' = [c \in Callers |-> 0] /\ ngate' = 0
  /\ val' = [s \in Stores |-> [k \in Keys |-> 0]] /\ at' = [s \in Stores |-> [k \in Keys |-> 0]]
  /\ ord' = [s \in Stores |-> <<>>] /\ freq' = [s \in Stores |-> [k \in Keys |-> 0]]
  /\ cnt' = [hit |-> 0, miss |-> 0, evict |-> 0]
  /\ ev' = [e |-> "reset"]
\* Service::call: the lookup
Create(c, k) ==
  /\ st[c] = "idle" /\ key' = [key EXCEPT ![c] = k]
  /\ LET s == StoreOf(c) IN
     IF val[s][k] # 0 /\ Fresh(s, k)
     THEN \* hit: the latest stored response of this key, no inner call; lru/lfu touch
          /\ st' = [st EXCEPT ![c] = "hit"] /\ hitVal' = [hitVal EXCEPT ![c] = val[s][k]]
          /\ ord' = (IF cfg.pol = "lru" THEN [ord EXCEPT ![s] = Append(Without(@, k), k)] ELSE ord)
          /\ freq' = (IF cfg.pol = "lfu" THEN [freq EXCEPT ![s][k] = @ + 1] ELSE freq)
          /\ cnt' = [cnt EXCEPT !.hit = @ + 1]
          /\ ev' = [e |-> "create", c |-> c, key |-> k, t |-> now, res |-> "created", ns |-> 0] @@ Lis([cnt EXCEPT !.hit = @ + 1])
          /\ UNCHANGED <<gout, gid, ngate, val, at>>
     ELSE \* miss (an expired entry is removed): exactly one inner call
          /\ st' = [st EXCEPT ![c] = "running"] /\ gout' = [gout EXCEPT ![c] = "pending"]
          /\ gid' = [gid EXCEPT ![c] = ngate + 1] /\ ngate' = ngate + 1
          /\ val' = [val EXCEPT ![s][k] = 0] /\ ord' = [ord EXCEPT ![s] = Without(@, k)] /\ freq' = [freq EXCEPT ![s][k] = 0]
          /\ cnt' = [cnt EXCEPT !.miss = @ + 1]
          /\ ev' = [e |-> "create", c |-> c, key |-> k, t |-> now, res |-> "created", ns |-> 1, si |-> ngate + 1] @@ Lis([cnt EXCEPT !.miss = @ + 1])
          /\ UNCHANGED <<hitVal, at>>
  /\ UNCHANGED <<cfg, now>>
PollHit(c) ==
  /\ st[c] = "hit" /\ st' = [st EXCEPT ![c] = "done"]
  /\ ev' = [e |-> "poll", c |-> c, t |-> now, res |-> "ok", val |-> hitVal[c], ns |-> 0, nd |-> 0]
  /\ UNCHANGED <<cfg, now, key, hitVal, gout, gid, ngate, val, at, ord, freq, cnt>>
Complete(c, o) ==
  /\ st[c] = "running" /\ gout[c] = "pending" /\ gout' = [gout EXCEPT ![c] = o]
  /\ ev' = [e |-> "complete", c |-> c, i |-> gid[c], out |-> o, t |-> now]
  /\ UNCHANGED <<cfg, now, st, key, hitVal, gid, ngate, val, at, ord, freq, cnt>>
\* victims the policy may choose when store s is full and key k is new
Victims(s) ==
  IF cfg.pol = "lfu" THEN {v \in Present(s) : \A w \in Present(s) : freq[s][v] <= freq[s][w]}
  ELSE IF ord[s] # <<>> THEN {Head(ord[s])} ELSE {}
InsertInto(s, k, v) ==
  IF val[s][k] # 0
  THEN \* update in place: lru moves to most recent, lfu counts a use, fifo keeps its position
       /\ val' = [val EXCEPT ![s][k] = v] /\ at' = [at EXCEPT ![s][k] = now]
       /\ ord' = (IF cfg.pol = "lru" THEN [ord EXCEPT ![s] = Append(Without(@, k), k)] ELSE ord)
       /\ freq' = (IF cfg.pol = "lfu" THEN [freq EXCEPT ![s][k] = @ + 1] ELSE freq)
  ELSE IF Cardinality(Present(s)) >= cfg.max
  THEN \E x \in Victims(s) :
         /\ val' = [val EXCEPT ![s][x] = 0, ![s][k] = v] /\ at' = [at EXCEPT ![s][k] = now]
         /\ ord' = [ord EXCEPT ![s] = Append(Without(@, x), k)]
         /\ freq' = [freq EXCEPT ![s][x] = 0, ![s][k] = 1]
  ELSE /\ val' = [val EXCEPT ![s][k] = v] /\ at' = [at EXCEPT ![s][k] = now]
       /\ ord' = [ord EXCEPT ![s] = Append(@, k)] /\ freq' = [freq EXCEPT ![s][k] = 1]
PollInsert(c) ==
  /\ st[c] = "running" /\ gout[c] \in {"ok", "e1"} /\ st' = [st EXCEPT ![c] = "done"]
  /\ IF gout[c] = "ok"
     THEN (LET c2 == IF Cardinality(Present(StoreOf(c))) >= cfg.max THEN [cnt EXCEPT !.evict = @ + 1] ELSE cnt IN
           InsertInto(StoreOf(c), key[c], gid[c]) /\ cnt' = c2
           /\ ev' = [e |-> "poll", c |-> c, t |-> now, res |-> "ok", val |-> gid[c], rq |-> c, ns |-> 0, nd |-> 1] @@ Lis(c2))
     ELSE UNCHANGED <<val, at, ord, freq, cnt>> /\ ev' = [e |-> "poll", c |-> c, t |-> now, res |-> "err", kind |-> "inner1", val |-> gid[c], ns |-> 0, nd |-> 1]    \* errors are never cached
  /\ UNCHANGED <<cfg, now, key, hitVal, gout, gid, ngate>>
\* a panic of the inner call is the request's own (in-situ runs): nothing is cached
PollPanic(c) ==
  /\ st[c] = "running" /\ gout[c] = "panic" /\ st' = [st EXCEPT ![c] = "done"]
  /\ ev' = [e |-> "poll", c |-> c, t |-> now, res |-> "panic", ns |-> 0, nd |-> 1]
  /\ UNCHANGED <<cfg, now, key, hitVal, gout, gid, ngate, val, at, ord, freq, cnt>>
PollStutter(c) ==
  /\ st[c] = "running" /\ gout[c] = "pending"
  /\ ev' = [e |-> "poll", c |-> c, t |-> now, res |-> "pending", ns |-> 0, nd |-> 0]
  /\ UNCHANGED <<cfg, now, st, key, hitVal, gout, gid, ngate, val, at, ord, freq, cnt>>
Drop(c) ==
  /\ st[c] \in {"hit", "running"} /\ st' = [st EXCEPT ![c] = "done"]
  /\ ev' = [e |-> "drop", c |-> c, t |-> now, ns |-> 0]
  /\ UNCHANGED <<cfg, now, key, hitVal, gout, gid, ngate, val, at, ord, freq, cnt>>
Advance(d) ==
  /\ d > 0 /\ \A c \in Callers : st[c] # "hit" /\ ~(st[c] = "running" /\ gout[c] \notin {"none", "pending"})
  /\ now' = now + d /\ ev' = [e |-> "advance", d |-> d, t |-> now + d]
  /\ UNCHANGED <<cfg, st, key, hitVal, gout, gid, ngate, val, at, ord, freq, cnt>>
PollAny(c) == PollHit(c) \/ PollInsert(c) \/ PollStutter(c) \/ PollPanic(c)
Next ==
  \/ \E c \in Callers : (\E k \in Keys : Create(c, k)) \/ PollHit(c) \/ PollInsert(c)
  \/ \E c \in Callers, o \in Outs : Complete(c, o)
  \/ (now < MaxTime /\ \E d \in {1, 3} : Advance(d))
Spec == Init /\ [][Next]_vars
\* C10 at design level
SizeBounded == \A s \in Stores : Cardinality(Present(s)) <= cfg.max
OrderConsistent == \A s \in Stores : cfg.pol # "lfu" => {ord[s][i] : i \in 1..Len(ord[s])} = Present(s) /\ Len(ord[s]) = Cardinality(Present(s))
HitIsLatestOfKey == \A c \in Callers : st[c] = "hit" => hitVal[c] # 0
=============================================================================
