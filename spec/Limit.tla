---------------------------- MODULE Limit ----------------------------
(* Adaptive limit controllers (C13, first half) on recorded atomic-step executions: after
   every single atomic operation of any thread the published limit lies within
   [min_limit, max_limit].  The fine-grained algorithms are model-checked in LimitImpl.tla. *)
EXTENDS Integers, Sequences, TLC, Json, IOUtils
VARIABLES l
Rec == ndJsonDeserialize(IOEnv.TRACE)
E == Rec[l]
Init == l = 1
Next == /\ l <= Len(Rec) /\ l' = l + 1
        /\ (E.e = "reset" \/ (E.lo <= E.limit /\ E.limit <= E.hi))
Accepted ==
  LET d == TLCGet("stats").diameter IN
  IF d - 1 = Len(Rec) THEN TRUE ELSE Print(<<"REJECTED", d, ToJson(Rec[d])>>, FALSE)
=============================================================================
