CONSTANTS
  Callers = {1, 2}
  CfgSet <- ConcCfgSetQ
  Enforce <- MCEnforce
  MaxTime = 4
  Outs <- Outs2
  Reuse = FALSE
  Ops <- FOps
  AdvSet = {1}
INIT Init
NEXT Next
VIEW view
ACTION_CONSTRAINT TourDump
CHECK_DEADLOCK FALSE
