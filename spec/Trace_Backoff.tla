---------------------------- MODULE Trace_Backoff ----------------------------
EXTENDS Backoff, Json, IOUtils
VARIABLE l
Rec == ndJsonDeserialize(IOEnv.TRACE)
E == Rec[l]
Is(k) == l <= Len(Rec) /\ E.e = k /\ l' = l + 1
TInit == InitWith([src |-> "x", kind |-> "fixed", ini |-> 0, mnum |-> 1, mden |-> 1, cap |-> 0, f2 |-> 0]) /\ ev = [e |-> "init"] /\ l = 1
TReset == Is("reset") /\ Reset(E.cfg)
TDelay == Is("delay") /\ (IF E.far THEN Far(E.d) ELSE (E.a = next /\ Dense(E.d)))
TNoDelay == Is("nodelay") /\ NoDelay
TRewind == Is("rewind") /\ Rewind
TLoop == Is("loop") /\ E.res = "err" /\ Loop(E.calls)
TNext == TReset \/ TDelay \/ TNoDelay \/ TLoop \/ TRewind
Accepted ==
  LET d == TLCGet("stats").diameter IN
  IF d - 1 = Len(Rec) THEN TRUE ELSE Print(<<"REJECTED", d, ToJson(Rec[d])>>, FALSE)
=============================================================================
