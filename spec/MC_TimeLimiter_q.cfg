CONSTANTS
  Callers = {1, 2}
  CfgSet <- MCCfgSet
  MaxTime = 6
  Outs <- MCOuts
  Keys <- MCKeys
INIT Init
NEXT Next
VIEW view
INVARIANT ResolvedByDeadline
CHECK_DEADLOCK FALSE
