---------------------------- MODULE MC_Coalesce ----------------------------
EXTENDS Coalesce, Json
MCCfgSet == {[x |-> 0]}
MCOuts == {"ok", "e1", "panic"}
MCKeys == {1, 2}
Inv == OneInnerPerKey /\ WaitersFollowLiveOrResolved /\ KeyTakenOnlyByLiveLeader
\* transition tour: every transition of the (small) model, printed with the level of its source state
TourDump == PrintT(<<"EDGE", TLCGet("level"), ToJson([f |-> view, t |-> view', cfg |-> cfg, ev |-> ev'])>>)
GenPrint == PrintT(<<"GEN", TLCGet("level"), ToJson([cfg |-> cfg, ev |-> ev])>>)
=============================================================================
