---------------------------- MODULE MC_Coalesce ----------------------------
EXTENDS Coalesce, Json
MCCfgSet == {[x |-> 0]}
MCOuts == {"ok", "e1", "panic"}
MCKeys == {1, 2}
Inv == OneInnerPerKey /\ WaitersFollowLiveOrResolved
GenPrint == PrintT(<<"GEN", TLCGet("level"), ToJson([cfg |-> cfg, ev |-> ev])>>)
=============================================================================
