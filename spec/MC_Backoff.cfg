CONSTANTS
  CfgSet <- MCCfgSet
  MaxAttempt = 40
INIT Init
NEXT Next
INVARIANT Inv
CHECK_DEADLOCK FALSE
