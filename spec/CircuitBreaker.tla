---------------------------- MODULE CircuitBreaker ----------------------------
(* tower-resilience-circuitbreaker: the documented state machine, as implemented, with
   any number of callers on clones of one breaker.  One action per critical section of
   the real future: PollAdmission = try_acquire under the breaker lock (+ inner call
   start), PollRecord = classify + record_* + evaluate_window under the lock.
   Properties: C04 (this machine, all views equal after every step), C03 and C09 (checked
   on real traces by the observers in Trace_CircuitBreaker; here as invariants).

   cfg = [wt: "count"|"time", N, min, thr (quarters), perm, slowOn, slowThr (ms),
          slowRate (quarters), D (ms), wait (ms), cls: "default"|"e2ok", fb: 0|1] *)
EXTENDS Integers, Sequences, FiniteSets, TLC
CONSTANTS Callers, CfgSet, Enforce, MaxTime, Outs, Reuse, Ops, AdvSet
VARIABLES cfg, now, state, changedAt, win, hoSucc, hoAdm, epoch, st, startT, gout, gid, trial, ngate, ev
vars == <<cfg, now, state, changedAt, win, hoSucc, hoAdm, epoch, st, startT, gout, gid, trial, ngate, ev>>
view == <<cfg, now, state, changedAt, win, hoSucc, hoAdm, epoch, st, startT, gout, gid, trial, ngate>>
mach == <<state, changedAt, win, hoSucc, hoAdm, epoch>>

G(id, P) == Enforce[id] => P

InitWith(cf) ==
  /\ cfg = cf /\ now = 0 /\ state = "closed" /\ changedAt = 0 /\ win = <<>>
  /\ hoSucc = 0 /\ hoAdm = 0 /\ epoch = 0
  /\ st = [c \in Callers |-> "idle"] /\ startT = [c \in Callers |-> 0]
  /\ gout = [c \in Callers |-> "none"] /\ gid = [c \in Callers |-> 0]
  /\ trial = [c \in Callers |-> 0 - 1] /\ ngate = 0
Init == (\E cf \in CfgSet : InitWith(cf)) /\ ev = [e |-> "init"]
Reset(cf) ==
  /\ cfg' = cf /\ now' = 0 /\ state' = "closed" /\ changedAt' = 0 /\ win' = <<>>
  /\ hoSucc' = 0 /\ hoAdm' = 0 /\ epoch' = 0
  /\ st' = [c \in Callers |-> "idle"] /\ startT' = [c \in Callers |-> 0]
  /\ gout' = [c \in Callers |-> "none"] /\ gid' = [c \in Callers |-> 0]
  /\ trial' = [c \in Callers |-> 0 - 1] /\ ngate' = 0
  /\ ev' = [e |-> "reset"]

\* ---- window arithmetic. A record is <<t, fail, slow>> (t unused for count-based windows)
Prune(w) == IF cfg.wt = "time" THEN SelectSeq(w, LAMBDA r : now - r[1] <= cfg.D) ELSE w
Push(w, f, s) ==
  LET w1 == Append(Prune(w), <<(IF cfg.wt = "time" THEN now ELSE 0), f, s>>)
  IN IF cfg.wt = "count" /\ Len(w1) > cfg.N THEN SubSeq(w1, Len(w1) - cfg.N + 1, Len(w1)) ELSE w1
Cnt(w, k) == Cardinality({i \in 1..Len(w) : w[i][k]})
ShouldOpen(w) ==
  LET total == Len(w) IN
  /\ total >= cfg.min
  /\ (cfg.wt = "count" => total >= cfg.N)
  /\ total > 0
  /\ \/ Cnt(w, 2) * 4 >= cfg.thr * total
     \/ (cfg.slowOn = 1 /\ Cnt(w, 3) * 4 >= cfg.slowRate * total)

\* the views the property names, plus the window counters (extended profile X)
Views(s, w) ==
  [sync |-> s, ast |-> s, mst |-> s, isopen |-> (s = "open")]
  @@ (IF Enforce["X"] THEN [mt |-> Len(w), mf |-> Cnt(w, 2), msl |-> Cnt(w, 3)] ELSE <<>>)

\* transition_to(s): a no-op when already there; otherwise everything is cleared
Goto(s, adm) ==
  IF state = s THEN UNCHANGED mach
  ELSE /\ state' = s /\ changedAt' = now /\ win' = <<>> /\ hoSucc' = 0 /\ hoAdm' = adm /\ epoch' = epoch + 1

Create(c) ==
  /\ (st[c] = "idle" \/ (Reuse /\ st[c] = "done"))     \* sequential histories reuse one caller id
  /\ st' = [st EXCEPT ![c] = "created"]
  /\ ev' = [e |-> "create", c |-> c, t |-> now, res |-> "created", ns |-> 0] @@ Views(state, win)
  /\ UNCHANGED <<cfg, now, mach, startT, gout, gid, trial, ngate>>

Admitted(c, tr) ==
  /\ st' = [st EXCEPT ![c] = "running"] /\ startT' = [startT EXCEPT ![c] = now]
  /\ gid' = [gid EXCEPT ![c] = ngate + 1] /\ gout' = [gout EXCEPT ![c] = "pending"]
  /\ trial' = [trial EXCEPT ![c] = tr] /\ ngate' = ngate + 1
Rejected(c) ==
  /\ st' = [st EXCEPT ![c] = "done"]
  /\ UNCHANGED <<startT, gid, gout, trial, ngate>>
EvAdmit(c) == [e |-> "poll", c |-> c, t |-> now, res |-> "pending", ns |-> 1, si |-> ngate + 1, sc |-> c]
EvReject(c) == IF cfg.fb = 1 THEN [e |-> "poll", c |-> c, t |-> now, res |-> "ok", val |-> 9000 + c, ns |-> 0]
               ELSE [e |-> "poll", c |-> c, t |-> now, res |-> "err", kind |-> "open", ns |-> 0]

\* cfg.sc > 0 (some sequential runs): the wrapped service takes sc ms *inside Service::call* (synchronously), so the
\* poll that admits a call ends sc ms later than it began; the call's duration counts from before that call
Sc == IF "sc" \in DOMAIN cfg THEN cfg.sc ELSE 0
\* try_acquire
PollAdmission(c) ==
  /\ st[c] = "created"
  /\ \/ /\ state = "closed"
        /\ Admitted(c, 0 - 1) /\ UNCHANGED mach /\ ev' = [EvAdmit(c) EXCEPT !.t = now + Sc] @@ Views(state, win) /\ now' = now + Sc
     \/ /\ state = "open" /\ now - changedAt >= cfg.wait          \* first call after the wait: half-open, first trial
        /\ Goto("half", 1) /\ Admitted(c, epoch + 1) /\ ev' = [EvAdmit(c) EXCEPT !.t = now + Sc] @@ Views("half", <<>>) /\ now' = now + Sc
     \/ /\ state = "open" /\ now - changedAt < cfg.wait            \* shielded (C03)
        /\ Rejected(c) /\ UNCHANGED mach /\ ev' = EvReject(c) @@ Views(state, win) /\ now' = now
     \/ /\ state = "half" /\ hoAdm < cfg.perm                      \* a trial slot is free (C09)
        /\ Admitted(c, epoch) /\ hoAdm' = hoAdm + 1 /\ UNCHANGED <<state, changedAt, win, hoSucc, epoch>>
        /\ ev' = [EvAdmit(c) EXCEPT !.t = now + Sc] @@ Views(state, win) /\ now' = now + Sc
     \/ /\ state = "half" /\ hoAdm >= cfg.perm
        /\ Rejected(c) /\ UNCHANGED mach /\ ev' = EvReject(c) @@ Views(state, win) /\ now' = now
  /\ UNCHANGED cfg

Complete(c, o) ==
  /\ st[c] = "running" /\ gout[c] = "pending"
  /\ gout' = [gout EXCEPT ![c] = o]
  /\ ev' = [e |-> "complete", c |-> c, i |-> gid[c], out |-> o, t |-> now] @@ Views(state, win)
  /\ UNCHANGED <<cfg, now, mach, st, startT, gid, trial, ngate>>

IsFail(o) == o = "e1" \/ (o = "e2" /\ cfg.cls = "default")
IsSlow(c) == cfg.slowOn = 1 /\ now - startT[c] >= cfg.slowThr
ResultEv(c) ==
  (IF gout[c] = "ok" THEN [res |-> "ok", val |-> gid[c], rq |-> c]
   ELSE [res |-> "err", kind |-> (IF gout[c] = "e1" THEN "inner1" ELSE "inner2"), val |-> gid[c]])
  @@ [e |-> "poll", c |-> c, t |-> now, ns |-> 0, nd |-> 1]

\* record_success / record_failure + evaluate_window
PollRecord(c) ==
  /\ st[c] = "running" /\ gout[c] \in {"ok", "e1", "e2"}
  /\ LET f  == IsFail(gout[c])
         w1 == Push(win, f, IsSlow(c))
     IN IF state = "half"
        THEN IF f THEN (Goto("open", 0) /\ ev' = ResultEv(c) @@ Views("open", <<>>))
             ELSE IF hoSucc + 1 >= cfg.perm THEN (Goto("closed", 0) /\ ev' = ResultEv(c) @@ Views("closed", <<>>))
             ELSE (hoSucc' = hoSucc + 1 /\ win' = w1 /\ UNCHANGED <<state, changedAt, hoAdm, epoch>> /\ ev' = ResultEv(c) @@ Views(state, w1))
        ELSE IF state = "closed" /\ ShouldOpen(w1)
             THEN (Goto("open", 0) /\ ev' = ResultEv(c) @@ Views("open", <<>>))
             ELSE (win' = w1 /\ UNCHANGED <<state, changedAt, hoSucc, hoAdm, epoch>> /\ ev' = ResultEv(c) @@ Views(state, w1))
  /\ st' = [st EXCEPT ![c] = "done"]
  /\ UNCHANGED <<cfg, now, startT, gout, gid, trial, ngate>>

\* a trial call that never reports (cancelled, or its inner call panicked) gives its slot back
GiveBack(c) ==
  IF st[c] = "running" /\ state = "half" /\ trial[c] = epoch /\ hoAdm > 0
  THEN hoAdm' = hoAdm - 1 /\ UNCHANGED <<state, changedAt, win, hoSucc, epoch>>
  ELSE UNCHANGED mach
PollPanic(c) ==
  /\ st[c] = "running" /\ gout[c] = "panic"
  /\ GiveBack(c)
  /\ st' = [st EXCEPT ![c] = "done"]
  /\ ev' = [e |-> "poll", c |-> c, t |-> now, res |-> "panic", ns |-> 0, nd |-> 1] @@ Views(state, win)
  /\ UNCHANGED <<cfg, now, startT, gout, gid, trial, ngate>>
Drop(c) ==
  /\ st[c] \in {"created", "running"}
  /\ GiveBack(c)
  /\ st' = [st EXCEPT ![c] = "done"]
  /\ ev' = [e |-> "drop", c |-> c, t |-> now, ns |-> 0] @@ Views(state, win)
  /\ UNCHANGED <<cfg, now, startT, gout, gid, trial, ngate>>
PollStutter(c) ==
  /\ st[c] = "running" /\ gout[c] = "pending"
  /\ ev' = [e |-> "poll", c |-> c, t |-> now, res |-> "pending", ns |-> 0] @@ Views(state, win)
  /\ UNCHANGED <<cfg, now, mach, st, startT, gout, gid, trial, ngate>>

\* manual overrides
Op(name) ==
  /\ \/ (name = "force_open" /\ Goto("open", 0) /\ ev' = [e |-> "op", name |-> name, t |-> now] @@ Views("open", IF state = "open" THEN win ELSE <<>>))
     \/ (name = "force_closed" /\ Goto("closed", 0) /\ ev' = [e |-> "op", name |-> name, t |-> now] @@ Views("closed", IF state = "closed" THEN win ELSE <<>>))
     \/ (name = "reset"                       \* closed, with an empty window, also when already closed
         /\ (IF state = "closed" THEN (win' = <<>> /\ hoSucc' = 0 /\ UNCHANGED <<state, changedAt, hoAdm, epoch>>) ELSE Goto("closed", 0))
         /\ ev' = [e |-> "op", name |-> name, t |-> now] @@ Views("closed", <<>>))
  /\ UNCHANGED <<cfg, now, st, startT, gout, gid, trial, ngate>>

Quiescent == \A c \in Callers : st[c] # "created" /\ ~(st[c] = "running" /\ gout[c] \notin {"none", "pending"})
\* cfg.lazy = 1: runs in which the executor may let time pass before a runnable caller is polled
\* (the call's duration is measured from the poll that starts the inner call, not from Service::call)
Lazy == "lazy" \in DOMAIN cfg /\ cfg.lazy = 1
Advance(d) ==
  /\ d > 0 /\ (Lazy \/ Quiescent)
  /\ now' = now + d
  /\ ev' = [e |-> "advance", d |-> d, t |-> now + d, ns |-> 0] @@ Views(state, win)
  /\ UNCHANGED <<cfg, mach, st, startT, gout, gid, trial, ngate>>

PollAny(c) == PollAdmission(c) \/ PollRecord(c) \/ PollPanic(c) \/ PollStutter(c)
Next ==
  \/ \E c \in Callers : Create(c) \/ PollAdmission(c) \/ PollRecord(c) \/ PollPanic(c) \/ Drop(c)
  \/ \E c \in Callers, o \in Outs : Complete(c, o)
  \/ \E n \in Ops : Op(n)
  \/ (now < MaxTime /\ \E d \in AdvSet : Advance(d))
Spec == Init /\ [][Next]_vars

\* ---- design-level invariants
TrialsNow == {c \in Callers : st[c] = "running" /\ trial[c] = epoch}
HalfBound == state = "half" => hoAdm <= (IF cfg.perm > 1 THEN cfg.perm ELSE 1) /\ Cardinality(TrialsNow) <= hoAdm   \* C09
\* no wedge (C09's repair): the trial slots in use are covered by trials still running plus successes counted in this
\* period (a success of a call admitted before the breaker opened counts too), so a half-open breaker whose trials
\* were all cancelled (or panicked) admits again
NoWedge == state = "half" => hoAdm <= Cardinality(TrialsNow) + hoSucc
OpenHasEmptyHalfOpenCounters == state # "half" => hoSucc = 0
WindowBounded == cfg.wt = "count" => Len(win) <= cfg.N
\* C03 at design level: an admission never leaves a state that is open and still within its wait
OpenShields == (ev.e = "poll" /\ "ns" \in DOMAIN ev /\ ev.ns = 1 /\ state = "open") => FALSE
ClosedNeverFullOfFailures == (state = "closed" /\ win # <<>>) => ~ShouldOpen(win)
=============================================================================
