CONSTANTS
  Callers = {1, 2}
  CfgSet <- MCCfgSet
  MaxTime = 9
  Outs <- MCOuts
INIT Init
NEXT GenNext

INVARIANT GenPrint
CHECK_DEADLOCK FALSE
