---------------------------- MODULE Budget ----------------------------
(* Abstract retry budget (C08): try_withdraw = test-and-subtract, deposit = add up to a
   ceiling.  For the AIMD budget the ceiling is "any value within [minb, max]" (the dynamic
   ceiling is a separate racy atomic whose only obligation is its bounds, C13).
   Trace validation decides linearizability of a recorded call/return history: before a
   return, any ordered subset of the called-but-not-yet-linearized operations may take
   effect (chosen by TLC); the returning operation must then have the observed result. *)
EXTENDS Integers, Sequences, FiniteSets, TLC, Json, IOUtils, SequencesExt
CONSTANTS Threads
VARIABLES cfg, tokens, pend, grants, deposits, l
vars == <<cfg, tokens, pend, grants, deposits, l>>
Rec == ndJsonDeserialize(IOEnv.TRACE)
E == Rec[l]
Min2(a, b) == IF a < b THEN a ELSE b
NoCfg == [kind |-> "tb", initial |-> 0, max |-> 0, cost |-> 1, amount |-> 1, minb |-> 0, fnum |-> 0]
Init == cfg = NoCfg /\ tokens = 0 /\ pend = [t \in Threads |-> [s |-> "none"]] /\ grants = 0 /\ deposits = 0 /\ l = 1
Is(k) == l <= Len(Rec) /\ E.e = k /\ l' = l + 1
\* the balance never exceeds its configured maximum, at every atomic step
BalOK == E.bal <= cfg.max
Reset == Is("reset") /\ cfg' = E.cfg /\ tokens' = E.cfg.initial
         /\ pend' = [t \in Threads |-> [s |-> "none"]] /\ grants' = 0 /\ deposits' = 0
Call == Is("call") /\ pend[E.th].s = "none" /\ BalOK
        /\ pend' = [pend EXCEPT ![E.th] = [s |-> "called", op |-> E.op]]
        /\ UNCHANGED <<cfg, tokens, grants, deposits>>
Step == Is("step") /\ BalOK /\ UNCHANGED <<cfg, tokens, pend, grants, deposits>>   \* internal atomic step: no abstract effect
Ceilings == IF cfg.kind = "aimd" THEN cfg.minb..cfg.max ELSE {cfg.max}
\* abstract effect of thread t's operation on state s = <<tokens, pend, grants, deposits>>: set of successors
Apply(s, t) ==
  IF s[2][t].op = "W"
  THEN IF s[1] >= cfg.cost
       THEN {<<s[1] - cfg.cost, [s[2] EXCEPT ![t] = [s |-> "lin", op |-> "W", res |-> "true"]], s[3] + 1, s[4]>>}
       ELSE {<<s[1], [s[2] EXCEPT ![t] = [s |-> "lin", op |-> "W", res |-> "false"]], s[3], s[4]>>}
  ELSE {<<Min2(s[1] + cfg.amount, c), [s[2] EXCEPT ![t] = [s |-> "lin", op |-> "D", res |-> "unit"]], s[3], s[4] + 1>> : c \in Ceilings}
RECURSIVE ApplyAll(_, _)
ApplyAll(S, q) == IF q = <<>> THEN S ELSE ApplyAll(UNION {Apply(s, Head(q)) : s \in S}, Tail(q))
Called == {t \in Threads : pend[t].s = "called"}
Orders == UNION {SetToSeqs(T) : T \in SUBSET Called}
Ret == /\ Is("ret") /\ BalOK
       /\ \E q \in Orders : \E s \in ApplyAll({<<tokens, pend, grants, deposits>>}, q) :
            /\ s[2][E.th].s = "lin" /\ s[2][E.th].res = E.res
            /\ tokens' = s[1] /\ grants' = s[3] /\ deposits' = s[4]
            /\ pend' = [s[2] EXCEPT ![E.th] = [s |-> "none"]]
            \* conservation, and at quiescence the observed balance is the abstract one
            /\ s[3] * cfg.cost + s[1] <= cfg.initial + s[4] * cfg.amount
            /\ s[1] <= cfg.max
            /\ ((\A t \in Threads : pend'[t].s = "none") => E.bal = s[1])
       /\ UNCHANGED cfg
Next == Reset \/ Call \/ Step \/ Ret
Accepted ==
  LET d == TLCGet("stats").diameter IN
  IF d - 1 = Len(Rec) THEN TRUE ELSE Print(<<"REJECTED", d, ToJson(Rec[d])>>, FALSE)
=============================================================================
