CONSTANTS
  Callers = {1}
  CfgSet <- SeqCfgSet
  Enforce <- MCEnforce
  MaxTime = 100
  Outs <- Outs3
  Reuse = TRUE
  Ops <- AllOps
  AdvSet = {1, 2}
INIT Init
NEXT Next
VIEW view
INVARIANT Inv
CONSTRAINT Depth7
CHECK_DEADLOCK FALSE
