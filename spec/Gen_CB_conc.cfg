CONSTANTS
  Callers = {1, 2, 3, 4}
  CfgSet <- ConcCfgSet
  Enforce <- MCEnforce
  MaxTime = 8
  Outs <- Outs4
  Reuse = FALSE
  Ops <- AllOps
  AdvSet = {1, 2}
INIT Init
NEXT Next

INVARIANT GenPrint
CHECK_DEADLOCK FALSE
