CONSTANTS
  Callers = {1, 2}
  CfgSet <- MCCfgSetQ
  MaxTime = 2
  Outs <- MCOuts
  Keys <- MCKeys
  Extended = FALSE
INIT Init
NEXT Next
VIEW view
ACTION_CONSTRAINT TourDump
CHECK_DEADLOCK FALSE
