---------------------------- MODULE MC_Cache ----------------------------
EXTENDS Cache, Json
MCCfgSet == [max : {1, 2}, ttl : {0 - 1, 2, 5}, pol : {"lru", "lfu", "fifo"}, shared : {0, 1}]
MCCfgSetQ == [max : {1, 2}, ttl : {0 - 1, 2}, pol : {"lru", "lfu", "fifo"}, shared : {1}]
MCOuts == {"ok", "e1"}
MCKeys == {1, 2, 3}
Inv == SizeBounded /\ OrderConsistent /\ HitIsLatestOfKey
\* transition tour: every transition of the (small) model, printed with the level of its source state
TourDump == PrintT(<<"EDGE", TLCGet("level"), ToJson([f |-> view, t |-> view', cfg |-> cfg, ev |-> ev'])>>)
GenPrint == PrintT(<<"GEN", TLCGet("level"), ToJson([cfg |-> cfg, ev |-> ev])>>)
=============================================================================
