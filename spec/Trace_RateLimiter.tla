---------------------------- MODULE Trace_RateLimiter ----------------------------
EXTENDS RateLimiter, Json, IOUtils
VARIABLE l
ProfC02 == [C02 |-> TRUE, C15 |-> FALSE]
ProfC15 == [C02 |-> FALSE, C15 |-> TRUE]
ProfAll == [C02 |-> TRUE, C15 |-> TRUE]
Rec == ndJsonDeserialize(IOEnv.TRACE)
E == Rec[l]
Matches(x, r) == \A k \in DOMAIN x : k \in DOMAIN r /\ r[k] = x[k]
Is(k) == l <= Len(Rec) /\ E.e = k /\ l' = l + 1

TInit == InitWith([win |-> "fixed", L |-> 1, P |-> 1, T |-> 0]) /\ ev = [e |-> "init"] /\ l = 1
TReset == Is("reset") /\ Reset(E.cfg)
TCreate == Is("create") /\ Create(E.c) /\ Matches(ev', E)
TPoll == Is("poll") /\ PollAny(E.c) /\ Matches(ev', E)
TDrop == Is("drop") /\ Drop(E.c) /\ Matches(ev', E)
TComplete == Is("complete") /\ Complete(E.c, E.out) /\ Matches(ev', E)
TAdvance == Is("advance") /\ Advance(E.d) /\ Matches(ev', E)
TEnd == Is("op") /\ E.name = "end" /\ End
TNext == TReset \/ TCreate \/ TPoll \/ TDrop \/ TComplete \/ TAdvance \/ TEnd

Accepted ==
  LET d == TLCGet("stats").diameter IN
  IF d - 1 = Len(Rec) THEN TRUE
  ELSE Print(<<"REJECTED", d, ToJson(Rec[d])>>, FALSE)
=============================================================================
