CONSTANTS
  Callers = {1, 2, 3}
  CfgSet <- MCCfgSetQ
  Enforce <- MCEnforce
  MaxTime = 8
  MCMode = TRUE
INIT Init
NEXT Next
VIEW view
INVARIANT Inv
CHECK_DEADLOCK FALSE
