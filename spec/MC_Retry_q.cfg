CONSTANTS
  Callers = {1, 2}
  CfgSet <- MCCfgSetQ
  MaxTime = 6
  Outs <- MCOuts
  Keys <- Keys1
INIT Init
NEXT Next
VIEW view
INVARIANT Inv
CHECK_DEADLOCK FALSE
