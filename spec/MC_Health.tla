---------------------------- MODULE MC_Health ----------------------------
EXTENDS Health, Json
MCCfgSet == [n : {2}, ft : {1, 2}, sth : {1, 2}, strat : {"first", "rr", "prefer"}]
MCResults == {"h", "d", "u", "k", "s"}
Bound == \A r \in Res : cnt[r] <= 3
=============================================================================
