---------------------------- MODULE MC_Health ----------------------------
EXTENDS Health, Json
MCCfgSet == [n : {1, 2}, ft : {1, 2}, sth : {1, 2}, strat : {"first", "rr", "prefer"}, trig : {0, 1}]
MCResults == {"h", "d", "u", "k", "s"}
Bound == \A r \in Res : cnt[r] <= 3
=============================================================================
