CONSTANTS
  CfgSet <- MCCfgSet
  MaxReq = 2
  DSet <- MCDSet
INIT Init
NEXT Next
INVARIANT Inv
CHECK_DEADLOCK FALSE
