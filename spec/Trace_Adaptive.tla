---------------------------- MODULE Trace_Adaptive ----------------------------
EXTENDS Adaptive, Json, IOUtils
VARIABLE l
Rec == ndJsonDeserialize(IOEnv.TRACE)
E == Rec[l]
Matches(x, r) == \A k \in DOMAIN x : k \in DOMAIN r /\ r[k] = x[k]
Is(k) == l <= Len(Rec) /\ E.e = k /\ l' = l + 1
TInit == InitWith([min |-> 1, initial |-> 1, max |-> 1]) /\ ev = [e |-> "init"] /\ l = 1
TReset == Is("reset") /\ Reset([min |-> E.cfg.min, initial |-> E.cfg.initial, max |-> E.cfg.max, two |-> (IF "two" \in DOMAIN E.cfg THEN E.cfg.two ELSE 0)])
Cp == "cp" \in DOMAIN E /\ E.cp = 1
TCreate == Is("create") /\ (IF Cp THEN CreateP(E.c) ELSE Create(E.c)) /\ Matches(ev', E)
TPoll == Is("poll") /\ (PollRefused(E.c) \/ PollStutter(E.c) \/ PollDone(E.c, E.limit)) /\ Matches(ev', E)
TComplete == Is("complete") /\ Complete(E.c, E.out) /\ Matches(ev', E)
TDrop == Is("drop") /\ Drop(E.c) /\ Matches(ev', E)
TProbe == Is("op") /\ E.name = "probe" /\ Probe(E.svc) /\ Matches(ev', E)
TAdvance == Is("advance") /\ Advance(E.d) /\ Matches(ev', E)
TNext == TReset \/ TCreate \/ TPoll \/ TComplete \/ TDrop \/ TProbe \/ TAdvance
Accepted ==
  LET d == TLCGet("stats").diameter IN
  IF d - 1 = Len(Rec) THEN TRUE ELSE Print(<<"REJECTED", d, ToJson(Rec[d])>>, FALSE)
=============================================================================
