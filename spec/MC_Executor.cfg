CONSTANTS
  Callers = {1, 2, 3, 4}
  Outs <- MCOuts
INIT Init
NEXT Next
VIEW view
INVARIANT ExactlyOnce
CHECK_DEADLOCK FALSE
