CONSTANTS
  Callers = {1}
  CfgSet <- MCCfgSet
  MaxTime = 6
  Outs <- MCOuts
INIT Init
NEXT Next
VIEW view
ACTION_CONSTRAINT TourDump
CHECK_DEADLOCK FALSE
