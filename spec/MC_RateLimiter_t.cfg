CONSTANTS
  Callers = {1, 2, 3}
  CfgSet <- MCCfgSet
  Enforce <- MCEnforce
  MaxTime = 10
  MCMode = TRUE
INIT Init
NEXT Next
VIEW view
INVARIANT Inv
CHECK_DEADLOCK FALSE
