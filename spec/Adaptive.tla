---------------------------- MODULE Adaptive ----------------------------
(* tower-resilience-adaptive, service half of C13: the in-flight count is exact and
   readiness is "fewer than limit calls in flight".  The limit itself belongs to the
   algorithm (LimitImpl.tla); here it is an input read from the implementation after every
   step (lim), constrained only to stay within [lo, hi].  Service::call starts the inner
   call synchronously, so Create is the admission. *)
EXTENDS Integers, Sequences, FiniteSets, TLC
CONSTANTS Callers, CfgSet, MaxTime, Outs
VARIABLES cfg, now, lim, st, gout, gid, ngate, ev
vars == <<cfg, now, lim, st, gout, gid, ngate, ev>>
view == <<cfg, now, lim, st, gout, gid, ngate>>
\* cfg.two = 1: the layer is applied twice; both services share the algorithm (the limit) but count
\* their own calls.  Caller c uses service 1 + c % 2 then, service 1 otherwise.
SvcOf(c) == IF "two" \in DOMAIN cfg /\ cfg.two = 1 THEN 1 + (c % 2) ELSE 1
Running == {c \in Callers : st[c] = "running"}
InFlightOf(s) == Cardinality({c \in Running : SvcOf(c) = s})
InFlight == Cardinality(Running)
Clamp(x) == IF x < cfg.min THEN cfg.min ELSE IF x > cfg.max THEN cfg.max ELSE x
InitWith(cf) == /\ cfg = cf /\ now = 0 /\ lim = Clamp(cf.initial)
                /\ st = [c \in Callers |-> "idle"] /\ gout = [c \in Callers |-> "none"] /\ gid = [c \in Callers |-> 0] /\ ngate = 0
Init == (\E cf \in CfgSet : InitWith(cf)) /\ ev = [e |-> "init"]
Reset(cf) == /\ cfg' = cf /\ now' = 0 /\ lim' = (IF cf.initial < cf.min THEN cf.min ELSE IF cf.initial > cf.max THEN cf.max ELSE cf.initial)
             /\ st' = [c \in Callers |-> "idle"] /\ gout' = [c \in Callers |-> "none"] /\ gid' = [c \in Callers |-> 0] /\ ngate' = 0
             /\ ev' = [e |-> "reset"]
\* what every event shows afterwards: exact in-flight count, a limit within bounds
\* per-service in-flight counts after a step in which caller c's service count changes by d
ObsD(c, d, l) == [inf |-> InFlightOf(1) + (IF c # 0 /\ SvcOf(c) = 1 THEN d ELSE 0),
                  inf2 |-> InFlightOf(2) + (IF c # 0 /\ SvcOf(c) = 2 THEN d ELSE 0), limit |-> l]
LimOK(l) == cfg.min <= l /\ l <= cfg.max

\* a readiness probe on some clone: Ready iff fewer than limit calls are in flight
Probe(s) ==
  /\ ev' = [e |-> "op", name |-> "probe", svc |-> s, t |-> now, res |-> (IF InFlightOf(s) < lim THEN "ready" ELSE "pending")] @@ ObsD(0, 0, lim)
  /\ UNCHANGED <<cfg, now, lim, st, gout, gid, ngate>>
\* poll_ready + call: a caller that found the limiter not ready does not call (Tower contract)
Create(c) ==
  /\ st[c] = "idle"
  /\ IF InFlightOf(SvcOf(c)) < lim
     THEN /\ st' = [st EXCEPT ![c] = "running"] /\ gout' = [gout EXCEPT ![c] = "pending"]
          /\ gid' = [gid EXCEPT ![c] = ngate + 1] /\ ngate' = ngate + 1
          /\ ev' = [e |-> "create", c |-> c, t |-> now, res |-> "created", ns |-> 1, si |-> ngate + 1] @@ ObsD(c, 1, lim)
     ELSE /\ st' = [st EXCEPT ![c] = "refused"] /\ UNCHANGED <<gout, gid, ngate>>
          /\ ev' = [e |-> "create", c |-> c, t |-> now, res |-> "created", ns |-> 0] @@ ObsD(0, 0, lim)
  /\ UNCHANGED <<cfg, now, lim>>
\* the wrapped service's `call` itself panics (injected, "cp"): Service::call unwinds, no future comes into being, and the
\* call does not count as in flight; a caller that found the limiter not ready makes no call, so nothing panics
CreateP(c) ==
  /\ st[c] = "idle"
  /\ IF InFlightOf(SvcOf(c)) < lim
     THEN /\ st' = [st EXCEPT ![c] = "done"]
          /\ ev' = [e |-> "create", c |-> c, t |-> now, res |-> "panic", ns |-> 0, cp |-> 1] @@ ObsD(0, 0, lim)
     ELSE /\ st' = [st EXCEPT ![c] = "refused"]
          /\ ev' = [e |-> "create", c |-> c, t |-> now, res |-> "created", ns |-> 0, cp |-> 1] @@ ObsD(0, 0, lim)
  /\ UNCHANGED <<cfg, now, lim, gout, gid, ngate>>
PollRefused(c) ==
  /\ st[c] = "refused" /\ st' = [st EXCEPT ![c] = "done"]
  /\ ev' = [e |-> "poll", c |-> c, t |-> now, res |-> "err", kind |-> "notready", ns |-> 0] @@ ObsD(0, 0, lim)
  /\ UNCHANGED <<cfg, now, lim, gout, gid, ngate>>
Complete(c, o) ==
  /\ st[c] = "running" /\ gout[c] = "pending" /\ gout' = [gout EXCEPT ![c] = o]
  /\ ev' = [e |-> "complete", c |-> c, i |-> gid[c], out |-> o, t |-> now] @@ ObsD(0, 0, lim)
  /\ UNCHANGED <<cfg, now, lim, st, gid, ngate>>
\* the poll that sees the inner result: no longer in flight; the algorithm may move the limit (within bounds)
PollDone(c, l2) ==
  /\ st[c] = "running" /\ gout[c] \in {"ok", "e1", "panic"} /\ LimOK(l2)
  /\ (gout[c] = "panic" => l2 = lim)                    \* a panicking call gives no feedback
  /\ st' = [st EXCEPT ![c] = "done"] /\ lim' = l2
  /\ ev' = (IF gout[c] = "ok" THEN [res |-> "ok", val |-> gid[c], rq |-> c]
            ELSE IF gout[c] = "panic" THEN [res |-> "panic"]
            ELSE [res |-> "err", kind |-> "inner1", val |-> gid[c]])
           @@ [e |-> "poll", c |-> c, t |-> now, ns |-> 0] @@ ObsD(c, 0 - 1, l2)
  /\ UNCHANGED <<cfg, now, gout, gid, ngate>>
PollStutter(c) ==
  /\ st[c] = "running" /\ gout[c] = "pending"
  /\ ev' = [e |-> "poll", c |-> c, t |-> now, res |-> "pending", ns |-> 0] @@ ObsD(0, 0, lim)
  /\ UNCHANGED <<cfg, now, lim, st, gout, gid, ngate>>
\* cancellation: a dropped call stops counting at once
Drop(c) ==
  /\ st[c] \in {"running", "refused"} /\ st' = [st EXCEPT ![c] = "done"]
  /\ ev' = [e |-> "drop", c |-> c, t |-> now, ns |-> 0] @@ ObsD(c, IF st[c] = "running" THEN 0 - 1 ELSE 0, lim)
  /\ UNCHANGED <<cfg, now, lim, gout, gid, ngate>>
Advance(d) ==
  /\ d > 0 /\ now' = now + d
  /\ ev' = [e |-> "advance", d |-> d, t |-> now + d] @@ ObsD(0, 0, lim)
  /\ UNCHANGED <<cfg, lim, st, gout, gid, ngate>>
Next ==
  \/ \E s \in {1, 2} : Probe(s)
  \/ \E c \in Callers : Create(c) \/ CreateP(c) \/ PollRefused(c) \/ Drop(c) \/ (\E l2 \in cfg.min..cfg.max : PollDone(c, l2))
  \/ \E c \in Callers, o \in Outs : Complete(c, o)
  \/ (now < MaxTime /\ Advance(1))
Spec == Init /\ [][Next]_vars
\* C13
\* (the count of the admitting service only: the other service of the layer may hold more calls than a limit that has
\*  shrunk since they were admitted)
NeverOverLimitAtAdmission == (ev.e = "create" /\ ev.ns = 1) => (IF SvcOf(ev.c) = 1 THEN ev.inf <= ev.limit ELSE ev.inf2 <= ev.limit)
ZeroWhenIdle == (\A c \in Callers : st[c] \in {"idle", "done", "refused"}) => InFlight = 0
LimitInBounds == LimOK(lim)
=============================================================================
