CONSTANTS
  Callers = {1, 2, 3}
  CfgSet <- ConcCfgSet
  Enforce <- MCEnforce
  MaxTime = 6
  Outs <- Outs4
  Reuse = FALSE
  Ops <- FOps
  AdvSet = {1}
INIT Init
NEXT Next
VIEW view
INVARIANT Inv
CHECK_DEADLOCK FALSE
