CONSTANTS
  Callers = {1, 2, 3, 4, 5}
  CfgSet <- MCCfgSet
  MaxTime = 2
  Outs <- MCOuts
INIT Init
NEXT Next

INVARIANT GenPrint
CHECK_DEADLOCK FALSE
