---------------------------- MODULE MC_LimitImpl ----------------------------
EXTENDS LimitImpl
MCCfgSet == {cf \in [kind : {"aimd", "vegas"}, min : 1..3, initial : 0..5, max : 1..4, inc : 1..3, fnum : {0, 2, 3, 4}] :
              cf.min <= cf.max /\ (cf.kind = "vegas" => cf.inc = 1 /\ cf.fnum = 2)}
Ops == {"S", "F"}
=============================================================================
