CONSTANTS
  Callers = {1, 2, 3}
  CfgSet <- MCCfgSetQ
  MaxTime = 3
  Outs <- MCOuts
  Keys <- MCKeys
  Extended = FALSE
INIT Init
NEXT Next
VIEW view
INVARIANT Inv
CHECK_DEADLOCK FALSE
