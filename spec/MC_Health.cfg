CONSTANTS
  CfgSet <- MCCfgSet
  Results <- MCResults
  MaxRes = 2
  MaxRounds = 4
INIT Init
NEXT Next
VIEW view
INVARIANT CountersExclusive
INVARIANT FailRunPublished
INVARIANT TrigHealthyClosed
INVARIANT TrigOpenOnlyAfterUnhealthy
PROPERTY FlipsOnlyAtThresholds
CONSTRAINT Bound
CHECK_DEADLOCK FALSE
