CONSTANTS
  Callers = {1, 2}
  CfgSet <- MCCfgSet
  MaxTime = 8
  Outs <- MCOuts
  Keys <- Keys4
INIT Init
NEXT Next
VIEW view
INVARIANT Inv
CHECK_DEADLOCK FALSE
