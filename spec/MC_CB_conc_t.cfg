CONSTANTS
  Callers = {1, 2, 3}
  CfgSet <- ConcCfgSetT
  Enforce <- MCEnforce
  MaxTime = 4
  Outs <- Outs4
  Reuse = FALSE
  Ops <- FOps
  AdvSet = {1}
INIT Init
NEXT Next
VIEW view
INVARIANT Inv
CHECK_DEADLOCK FALSE
