---------------------------- MODULE MC_Executor ----------------------------
EXTENDS Executor, Json
MCOuts == {"ok", "e1", "panic"}
GenPrint == PrintT(<<"GEN", TLCGet("level"), ToJson([cfg |-> [x |-> 0], ev |-> ev])>>)
=============================================================================
