---------------------------- MODULE MC_Executor ----------------------------
EXTENDS Executor, Json
MCOuts == {"ok", "e1", "panic"}
\* transition tour: every transition of the (small) model, printed with the level of its source state
TourDump == PrintT(<<"EDGE", TLCGet("level"), ToJson([f |-> view, t |-> view', cfg |-> [x |-> 0], ev |-> ev'])>>)
GenPrint == PrintT(<<"GEN", TLCGet("level"), ToJson([cfg |-> [x |-> 0], ev |-> ev])>>)
=============================================================================
