---------------------------- MODULE Trace_CircuitBreaker ----------------------------
(* Trace validation for the circuit breaker.
   Profile C04 (and X): every event must be the step of the documented machine
   (CircuitBreaker.tla) it names, with all state views equal after the step.
   Profiles C03 / C09: the machine is not consulted at all.  Observers built only from what
   the trace shows (the lock-free state view logged after every event, inner starts,
   results) check the shield of an open breaker and the bound on half-open trial calls. *)
EXTENDS CircuitBreaker, Json, IOUtils
VARIABLES l, oState, oOpenAt, oSt, oTrials
ProfC04 == [C04 |-> TRUE, C03 |-> FALSE, C09 |-> FALSE, X |-> FALSE]
ProfC03 == [C04 |-> FALSE, C03 |-> TRUE, C09 |-> FALSE, X |-> FALSE]
ProfC09 == [C04 |-> FALSE, C03 |-> FALSE, C09 |-> TRUE, X |-> FALSE]
ProfAll == [C04 |-> TRUE, C03 |-> TRUE, C09 |-> TRUE, X |-> TRUE]
Rec == ndJsonDeserialize(IOEnv.TRACE)
E == Rec[l]
\* every field the action puts into ev' must equal the logged field; events flagged "split" (in-situ runs: the two
\* halves of a poll whose inner call was answered at once by the layer below) carry no state views
ViewKeys == {"sync", "ast", "mst", "isopen", "mt", "mf", "msl"}
Matches(x, r) == \A k \in DOMAIN x : (k \in ViewKeys /\ "split" \in DOMAIN r) \/ (k \in DOMAIN r /\ r[k] = x[k])
Is(k) == l <= Len(Rec) /\ E.e = k /\ l' = l + 1
obsv == <<oState, oOpenAt, oSt, oTrials>>
machv == <<cfg, now, state, changedAt, win, hoSucc, hoAdm, epoch, st, startT, gout, gid, trial, ngate>>

ObsInit == oState = "closed" /\ oOpenAt = 0 /\ oSt = [c \in Callers |-> "none"] /\ oTrials = {}
ObsReset == oState' = "closed" /\ oOpenAt' = 0 /\ oSt' = [c \in Callers |-> "none"] /\ oTrials' = {}

\* ---- observers (only when C03 or C09 is enforced)
\* oOpenAt holds the end of the current shield: set when a step first shows Open, ended only
\* by the wait running out or by a manual force_closed / reset -- not by the breaker showing
\* another state on its own (a breaker that leaves Open early must still not let calls through)
\* the state view of an event; the halves of a split poll (in-situ runs) show none: the view of the previous event stands
Sync == IF "sync" \in DOMAIN E THEN E.sync ELSE oState
Shielded == E.t < oOpenAt
RejectedAtOnce(c) ==
  /\ E.ns = 0
  /\ IF cfg.fb = 1 THEN (E.res = "ok" /\ E.val = 9000 + c) ELSE (E.res = "err" /\ E.kind = "open")
NextTrials ==
  LET post == Sync
      c == IF "c" \in DOMAIN E THEN E.c ELSE 0
      base == IF post = "half" /\ oState = "half" THEN oTrials ELSE {}
      gone == E.e = "drop" \/ (E.e = "poll" /\ E.res = "panic")
      admits == E.e = "poll" /\ E.ns >= 1
  IN IF post # "half" THEN {}
     ELSE IF admits THEN base \cup {c}
     ELSE IF gone THEN base \ {c}
     ELSE base
ObsStep ==
  /\ oState' = Sync
  /\ oOpenAt' = (IF E.e = "op" /\ E.name \in {"force_closed", "reset"} THEN 0
                 ELSE IF Sync = "open" /\ oState # "open" THEN E.t + cfg.wait
                 ELSE oOpenAt)
  /\ oTrials' = NextTrials
  /\ oSt' = (IF E.e = "create" THEN [oSt EXCEPT ![E.c] = "created"]
             ELSE IF E.e = "drop" THEN [oSt EXCEPT ![E.c] = "gone"]
             ELSE IF E.e = "poll" THEN [oSt EXCEPT ![E.c] = IF E.res # "pending" THEN "gone" ELSE IF E.ns >= 1 THEN "adm" ELSE @]
             ELSE oSt)
  \* C03: a new call during the shield is answered at once and reaches nothing
  /\ G("C03", (E.e = "poll" /\ oSt[E.c] = "created" /\ Shielded) => RejectedAtOnce(E.c))
  \* C09: trial calls alive or reported in one half-open period
  /\ G("C09", Cardinality(NextTrials) <= (IF cfg.perm > 1 THEN cfg.perm ELSE 1))
  \* callers beyond the bound are rejected at once, not parked
  /\ G("C09", (E.e = "poll" /\ oSt[E.c] = "created" /\ oState = "half" /\ Sync = "half" /\ E.ns = 0) => E.res # "pending")
Observed == UNCHANGED machv /\ ev' = [e |-> E.e] /\ ObsStep
Full == Enforce["C04"]

TInit == InitWith([wt |-> "count", N |-> 1, min |-> 1, thr |-> 4, perm |-> 1, slowOn |-> 0, slowThr |-> 1, slowRate |-> 4,
                   D |-> 1, wait |-> 1, cls |-> "default", fb |-> 0]) /\ ev = [e |-> "init"] /\ l = 1 /\ ObsInit
TReset == Is("reset") /\ Reset(E.cfg) /\ ObsReset
Step(A) == IF Full THEN (A /\ Matches(ev', E) /\ UNCHANGED obsv) ELSE Observed
TCreate == Is("create") /\ Step(Create(E.c))
TPoll == Is("poll") /\ Step(PollAny(E.c))
TComplete == Is("complete") /\ Step(Complete(E.c, E.out))
TDrop == Is("drop") /\ Step(Drop(E.c))
TOp == Is("op") /\ Step(Op(E.name))
TAdvance == Is("advance") /\ (IF Full THEN (Advance(E.d) /\ Matches(ev', E) /\ UNCHANGED obsv)
                              ELSE (now' = now + E.d /\ UNCHANGED <<cfg, state, changedAt, win, hoSucc, hoAdm, epoch, st, startT, gout, gid, trial, ngate>>
                                    /\ ev' = [e |-> "advance"] /\ ObsStep))
TNext == TReset \/ TCreate \/ TPoll \/ TComplete \/ TDrop \/ TOp \/ TAdvance

Accepted ==
  LET d == TLCGet("stats").diameter IN
  IF d - 1 = Len(Rec) THEN TRUE
  ELSE Print(<<"REJECTED", d, ToJson(Rec[d])>>, FALSE)
=============================================================================
