---------------------------- MODULE MC_Hedge ----------------------------
EXTENDS Hedge, Json
MCCfgSet == {cf \in [max : {1, 2, 3}, mode : {"fixed", "par", "dyn"}, d : {2}] : TRUE}
MCOuts == {"ok", "e1"}
Inv == AttemptsLeMax /\ FailOnlyWhenAllFailed
\* behaviour generation: every environment choice is a separate action instance (constant bounds),
\* so that the one successor TLC's simulator prints per step is the one it took
GenNext ==
  \/ \E c \in Callers : Create(c) \/ FirstPoll(c) \/ Poll(c)
  \/ \E i \in 1..6, o \in Outs : Complete(i, o)
  \/ (now < MaxTime /\ Advance(1))
\* transition tour: every transition of the (small) model, printed with the level of its source state
TourDump == PrintT(<<"EDGE", TLCGet("level"), ToJson([f |-> view, t |-> view', cfg |-> cfg, ev |-> ev'])>>)
GenPrint == PrintT(<<"GEN", TLCGet("level"), ToJson([cfg |-> cfg, ev |-> ev])>>)
=============================================================================
