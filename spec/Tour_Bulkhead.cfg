CONSTANTS
  Callers = {1, 2}
  CfgSet <- MCCfgSet
  Enforce <- MCEnforce
  MaxTime = 3
  Outs <- MCOuts
INIT Init
NEXT Next
VIEW view
ACTION_CONSTRAINT TourDump
CHECK_DEADLOCK FALSE
