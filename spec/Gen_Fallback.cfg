CONSTANTS
  Callers = {1, 2, 3}
  CfgSet <- MCCfgSet
  Outs <- MCOuts
INIT Init
NEXT Next

INVARIANT GenPrint
CHECK_DEADLOCK FALSE
