---------------------------- MODULE Backoff ----------------------------
(* Backoff schedules of tower-resilience-retry / -reconnect (C14) as a state machine over
   (attempt, delay): delay(0) = Min(initial, cap), delay(a+1) = Min(delay(a) * m, cap).
   Delays are in units (ms or s) rounded to the nearest unit and saturated at BIG, so that
   "overflow" is a value, not an error; a panic has no matching action.
   cfg = [src, ini, mnum, mden, cap (0 = none), f2 (jitter factor in halves), kind: "exp"|"fixed"|"none"] *)
EXTENDS Integers, Sequences, TLC
CONSTANTS CfgSet, MaxAttempt
VARIABLES cfg, next, base, prev, ev
vars == <<cfg, next, base, prev, ev>>
BIG == 100000000
Min2(a, b) == IF a < b THEN a ELSE b
Cap == IF cfg.cap = 0 THEN BIG ELSE Min2(cfg.cap, BIG)
IntMult == cfg.mden = 1
\* exact schedule for integer multipliers
Base0 == Min2(cfg.ini, Cap)
BaseNext(b) == Min2(b * cfg.mnum, Cap)
\* where the schedule ends up for very large attempt numbers (m >= 1)
BaseFar == IF cfg.kind = "fixed" THEN Min2(cfg.ini, BIG) ELSE IF cfg.ini = 0 THEN 0 ELSE IF cfg.mnum = cfg.mden THEN Min2(cfg.ini, Cap) ELSE Cap
Jitter(d, b) == \/ d >= BIG
                \/ (2 * d >= (2 - cfg.f2) * b - 2 /\ 2 * d <= (2 + cfg.f2) * b + 2)
InitWith(cf) == cfg = cf /\ next = 0 /\ base = 0 /\ prev = 0
Init == (\E cf \in CfgSet : InitWith(cf)) /\ ev = [e |-> "init"]
Reset(cf) == cfg' = cf /\ next' = 0 /\ base' = 0 /\ prev' = 0 /\ ev' = [e |-> "reset"]
\* the delay the implementation may report for the next dense attempt number
DenseOK(d) ==
  IF cfg.kind = "fixed" THEN d = Min2(cfg.ini, BIG)
  ELSE IF IntMult
  THEN (LET b == IF next = 0 THEN Base0 ELSE BaseNext(base) IN
        IF cfg.f2 = 0 THEN d = b ELSE Jitter(d, b))
  ELSE \* non-integer multiplier: the recurrence on the rounded observations, one unit of slack
       (IF next = 0 THEN d = Base0
        ELSE /\ d >= Min2((prev * cfg.mnum) \div cfg.mden, Cap) - 1
             /\ d <= Min2(((prev + 1) * cfg.mnum) \div cfg.mden + 1, Cap))
Dense(d) ==
  /\ DenseOK(d)
  /\ (cfg.f2 = 0 => d >= prev /\ d <= Cap)                      \* monotone, capped
  /\ next' = next + 1 /\ prev' = d
  /\ base' = (IF cfg.kind = "exp" /\ IntMult THEN (IF next = 0 THEN Base0 ELSE BaseNext(base)) ELSE base)
  /\ ev' = [e |-> "delay", a |-> next, d |-> d, far |-> FALSE]
  /\ UNCHANGED cfg
\* attempt numbers far beyond the dense range (up to usize::MAX), in increasing order
Far(d) ==
  /\ (IF cfg.f2 = 0 THEN d = BaseFar ELSE Jitter(d, BaseFar))
  /\ (cfg.f2 = 0 => d >= prev)
  /\ prev' = (IF cfg.f2 = 0 THEN d ELSE prev)
  /\ ev' = [e |-> "delay", d |-> d, far |-> TRUE]
  /\ UNCHANGED <<cfg, next, base>>
\* the schedule is a function of the attempt number alone: the same object asked again from attempt 0 (after it has
\* been driven to the cap and beyond, as a backoff shared by all requests of a layer is) answers as it did before
Rewind == next' = 0 /\ base' = 0 /\ prev' = 0 /\ ev' = [e |-> "rewind"] /\ UNCHANGED cfg
\* policy "none": no delay at all
NoDelay == cfg.kind = "none" /\ ev' = [e |-> "nodelay"] /\ UNCHANGED <<cfg, next, base, prev>>
\* a retry / reconnect loop against a dead backend ran its configured number of attempts and ended with an error
Loop(calls) == calls = cfg.ini /\ ev' = [e |-> "loop", calls |-> calls, res |-> "err"] /\ UNCHANGED <<cfg, next, base, prev>>
\* model checking: the machine itself, driven by its own expectation
Expected == IF cfg.kind = "fixed" THEN Min2(cfg.ini, BIG) ELSE IF next = 0 THEN Base0 ELSE BaseNext(base)
Next == next < MaxAttempt /\ cfg.kind # "none" /\ cfg.mden = 1 /\ cfg.f2 = 0 /\ Dense(Expected)
Spec == Init /\ [][Next]_vars
Monotone == prev <= (IF cfg.kind = "fixed" THEN BIG ELSE Cap)
ReachesFar == (next = MaxAttempt /\ cfg.kind = "exp" /\ cfg.ini > 0 /\ cfg.mnum > 1) => prev = BaseFar
=============================================================================
