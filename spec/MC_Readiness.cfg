CONSTANTS
  MaxInst = 5
  Honour = TRUE
INIT Init
NEXT Next
INVARIANT Contract
CHECK_DEADLOCK FALSE
