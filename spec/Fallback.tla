---------------------------- MODULE Fallback ----------------------------
(* tower-resilience-fallback (C17): the decision table.  Requests, responses and errors are
   distinguishable tokens: inner response = (gate serial g, request c); the strategies produce
   value (7000,0) | value_fn: n-th invocation (7100+n, 0) | from_error(e) = (7200+code, e.serial)
   | from_request_error(r,e) = (7300+code, 1000*r+e.serial) | backup service ok = (7400, r),
   err = FallbackFailed(code 74, serial r) | exception g(e) = Inner(code+50, e.serial).
   cfg = [strat, pred (0: none, 1: handles only errors whose code is not 2), bk ("ok"|"err")] *)
EXTENDS Integers, Sequences, FiniteSets, TLC
CONSTANTS Callers, CfgSet, Outs
VARIABLES cfg, st, gout, gid, ngate, vfn, bkcalls, ev
vars == <<cfg, st, gout, gid, ngate, vfn, bkcalls, ev>>
view == <<cfg, st, gout, gid, ngate, vfn, bkcalls>>
InitWith(cf) == /\ cfg = cf /\ st = [c \in Callers |-> "idle"] /\ gout = [c \in Callers |-> "none"]
                /\ gid = [c \in Callers |-> 0] /\ ngate = 0 /\ vfn = 0 /\ bkcalls = 0
Init == (\E cf \in CfgSet : InitWith(cf)) /\ ev = [e |-> "init"]
Reset(cf) == /\ cfg' = cf /\ st' = [c \in Callers |-> "idle"] /\ gout' = [c \in Callers |-> "none"]
             /\ gid' = [c \in Callers |-> 0] /\ ngate' = 0 /\ vfn' = 0 /\ bkcalls' = 0 /\ ev' = [e |-> "reset"]
Obs(v, b) == [vfn |-> v, bk |-> b]
Create(c) == /\ st[c] = "idle" /\ st' = [st EXCEPT ![c] = "created"]
             /\ ev' = [e |-> "create", c |-> c, res |-> "created", ns |-> 0] @@ Obs(vfn, bkcalls)
             /\ UNCHANGED <<cfg, gout, gid, ngate, vfn, bkcalls>>
\* the property is silent on whether the inner call starts in Service::call or at the first poll
CreateEager(c) == /\ st[c] = "idle" /\ st' = [st EXCEPT ![c] = "running"] /\ gout' = [gout EXCEPT ![c] = "pending"]
                  /\ gid' = [gid EXCEPT ![c] = ngate + 1] /\ ngate' = ngate + 1
                  /\ ev' = [e |-> "create", c |-> c, res |-> "created", ns |-> 1, si |-> ngate + 1, sc |-> c] @@ Obs(vfn, bkcalls)
                  /\ UNCHANGED <<cfg, vfn, bkcalls>>
FirstPoll(c) == /\ st[c] = "created" /\ st' = [st EXCEPT ![c] = "running"] /\ gout' = [gout EXCEPT ![c] = "pending"]
                /\ gid' = [gid EXCEPT ![c] = ngate + 1] /\ ngate' = ngate + 1
                /\ ev' = [e |-> "poll", c |-> c, res |-> "pending", ns |-> 1, si |-> ngate + 1, sc |-> c] @@ Obs(vfn, bkcalls)
                /\ UNCHANGED <<cfg, vfn, bkcalls>>
Complete(c, o) == /\ st[c] = "running" /\ gout[c] = "pending" /\ gout' = [gout EXCEPT ![c] = o]
                  /\ ev' = [e |-> "complete", c |-> c, i |-> gid[c], out |-> o] @@ Obs(vfn, bkcalls)
                  /\ UNCHANGED <<cfg, st, gid, ngate, vfn, bkcalls>>
Code(o) == IF o = "e1" THEN 1 ELSE 2
Handled(o) == cfg.pred = 0 \/ Code(o) # 2
InnerErr(code, serial) == [res |-> "err", kind |-> "inner" \o ToString(code), val |-> serial]
PollOutcome(c) ==
  /\ st[c] = "running" /\ gout[c] \in {"ok", "e1", "e2"} /\ st' = [st EXCEPT ![c] = "done"]
  /\ LET g == gid[c]  o == gout[c]  x == Code(gout[c])
         useVfn == o # "ok" /\ Handled(o) /\ cfg.strat = "valuefn"
         useBk  == o # "ok" /\ Handled(o) /\ cfg.strat = "service"
         r == IF o = "ok" THEN [res |-> "ok", val |-> g, rq |-> c]                       \* a success is never replaced
              ELSE IF ~Handled(o) THEN InnerErr(x, g)                                       \* refused by the predicate: unchanged
              ELSE IF cfg.strat = "value" THEN [res |-> "ok", val |-> 7000, rq |-> 0]
              ELSE IF cfg.strat = "valuefn" THEN [res |-> "ok", val |-> 7100 + vfn + 1, rq |-> 0]
              ELSE IF cfg.strat = "fromerr" THEN [res |-> "ok", val |-> 7200 + x, rq |-> g]
              ELSE IF cfg.strat = "fromreq" THEN [res |-> "ok", val |-> 7300 + x, rq |-> 1000 * c + g]
              ELSE IF cfg.strat = "service" THEN (IF cfg.bk = "ok" THEN [res |-> "ok", val |-> 7400, rq |-> c]
                                                  \* the backup's own error (code 74, or 2 for bk = "err2": one the handle predicate would refuse) is
                                                  \* reported as a failed fallback whatever the predicate thinks of it
                                                  ELSE [res |-> "err", kind |-> (IF cfg.bk = "err2" THEN "fbfailed2" ELSE "fbfailed74"), val |-> c])
              ELSE InnerErr(x + 50, g)                                                      \* exception: transformed error
     IN /\ vfn' = (IF useVfn THEN vfn + 1 ELSE vfn) /\ bkcalls' = (IF useBk THEN bkcalls + 1 ELSE bkcalls)
        /\ ev' = r @@ [e |-> "poll", c |-> c, ns |-> 0, nd |-> 1] @@ Obs(IF useVfn THEN vfn + 1 ELSE vfn, IF useBk THEN bkcalls + 1 ELSE bkcalls)
  /\ UNCHANGED <<cfg, gout, gid, ngate>>
\* a panic of the inner call is the request's own (in-situ runs): no strategy is consulted
PollPanic(c) == /\ st[c] = "running" /\ gout[c] = "panic" /\ st' = [st EXCEPT ![c] = "done"]
                /\ ev' = [e |-> "poll", c |-> c, res |-> "panic", ns |-> 0, nd |-> 1] @@ Obs(vfn, bkcalls)
                /\ UNCHANGED <<cfg, gout, gid, ngate, vfn, bkcalls>>
PollStutter(c) == /\ ((st[c] = "running" /\ gout[c] = "pending") \/ st[c] = "created")
                  /\ ev' = [e |-> "poll", c |-> c, res |-> "pending", ns |-> 0, nd |-> 0] @@ Obs(vfn, bkcalls)
                  /\ UNCHANGED <<cfg, st, gout, gid, ngate, vfn, bkcalls>>
Drop(c) == /\ st[c] \in {"created", "running"} /\ st' = [st EXCEPT ![c] = "done"]
           /\ ev' = [e |-> "drop", c |-> c, ns |-> 0] @@ Obs(vfn, bkcalls)
           /\ UNCHANGED <<cfg, gout, gid, ngate, vfn, bkcalls>>
Advance(d) == ev' = [e |-> "advance", d |-> d] @@ Obs(vfn, bkcalls) /\ UNCHANGED <<cfg, st, gout, gid, ngate, vfn, bkcalls>>
PollAny(c) == FirstPoll(c) \/ PollOutcome(c) \/ PollStutter(c) \/ PollPanic(c)
Next == \/ \E c \in Callers : Create(c) \/ FirstPoll(c) \/ PollOutcome(c)
        \/ \E c \in Callers, o \in Outs : Complete(c, o)
Spec == Init /\ [][Next]_vars
\* C17 at design level: a success never triggers the strategy
SuccessUntouched == (ev.e = "poll" /\ "val" \in DOMAIN ev /\ ev.res = "ok" /\ ev.val < 7000) => ev.rq = ev.c
BackupOnlyWhenNeeded == bkcalls <= Cardinality({c \in Callers : st[c] = "done"})
=============================================================================
