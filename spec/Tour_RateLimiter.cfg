CONSTANTS
  Callers = {1, 2}
  CfgSet <- MCCfgSetQ
  Enforce <- MCEnforce
  MaxTime = 7
  MCMode = TRUE
INIT Init
NEXT Next
VIEW view
ACTION_CONSTRAINT TourDump
CHECK_DEADLOCK FALSE
