---------------------------- MODULE Listeners ----------------------------
(* C20, third clause: event listeners only observe.  Design model: Emit delivers an event to
   every registered listener in turn; a listener that panics is contained and the next one
   still gets the event.  Trace side: for every layer, the run in which no listener panics
   (mask 0) is the reference; for every other subset of panicking listeners the call results
   and the per-listener delivery counts must be the same, and every listener sees every event. *)
EXTENDS Integers, Sequences, TLC, Json, IOUtils
CONSTANTS MaxEvents
VARIABLES l, base, delivered, emitted, mask
vars == <<l, base, delivered, emitted, mask>>
\* ---- design model (MC_Listeners.cfg): emitted events vs deliveries
MInit == l = 0 /\ base = <<>> /\ delivered = [i \in 1..3 |-> 0] /\ emitted = 0 /\ mask \in SUBSET (1..3)
Emit == /\ emitted < MaxEvents /\ emitted' = emitted + 1
        /\ delivered' = [i \in 1..3 |-> delivered[i] + 1]        \* panicking or not, each listener is invoked once
        /\ UNCHANGED <<l, base, mask>>
MNext == Emit
AllDelivered == \A i \in 1..3 : delivered[i] = emitted
\* ---- trace validation
Rec == ndJsonDeserialize(IOEnv.TRACE)
E == Rec[l]
TInit == l = 1 /\ base = <<>> /\ delivered = [i \in 1..3 |-> 0] /\ emitted = 0 /\ mask = {}
Is(k) == l <= Len(Rec) /\ E.e = k /\ l' = l + 1
TReset == Is("reset") /\ base' = <<>> /\ UNCHANGED <<delivered, emitted, mask>>
TRun ==
  /\ Is("lrun")
  /\ IF E.mask = 0
     THEN /\ base' = <<E.counts, E.results>>
          /\ E.counts[1] = E.counts[2] /\ E.counts[2] = E.counts[3] /\ E.counts[1] >= 1     \* everybody gets every event
     ELSE /\ base # <<>> /\ E.counts = base[1] /\ E.results = base[2] /\ UNCHANGED base      \* whatever the listeners do
  /\ UNCHANGED <<delivered, emitted, mask>>
TNext == TReset \/ TRun
Accepted ==
  LET d == TLCGet("stats").diameter IN
  IF d - 1 = Len(Rec) THEN TRUE ELSE Print(<<"REJECTED", d, ToJson(Rec[d])>>, FALSE)
=============================================================================
