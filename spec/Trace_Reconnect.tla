---------------------------- MODULE Trace_Reconnect ----------------------------
EXTENDS Reconnect, Json, IOUtils
VARIABLE l
Rec == ndJsonDeserialize(IOEnv.TRACE)
E == Rec[l]
Matches(x, r) == \A k \in DOMAIN x : k \in DOMAIN r /\ r[k] = x[k]
Is(k) == l <= Len(Rec) /\ E.e = k /\ l' = l + 1
TInit == InitWith([max |-> 0, pol |-> "none", b0 |-> 1, cap |-> 1, retryOn |-> 1, pred |-> "all"]) /\ ev = [e |-> "init"] /\ l = 1
TReset == Is("reset") /\ Reset(E.cfg)
TCreate == Is("create") /\ (Create(E.c) \/ CreateDeferred(E.c)) /\ Matches(ev', E)
TPoll == Is("poll") /\ PollAny(E.c) /\ Matches(ev', E) /\ ConnOK(E.conn)
TComplete == Is("complete") /\ Complete(E.c, E.out) /\ Matches(ev', E)
TDrop == Is("drop") /\ Drop(E.c) /\ Matches(ev', E)
TAdvance == Is("advance") /\ Advance(E.d) /\ Matches(ev', E)
TNext == TReset \/ TCreate \/ TPoll \/ TComplete \/ TDrop \/ TAdvance
Accepted ==
  LET d == TLCGet("stats").diameter IN
  IF d - 1 = Len(Rec) THEN TRUE ELSE Print(<<"REJECTED", d, ToJson(Rec[d])>>, FALSE)
=============================================================================
