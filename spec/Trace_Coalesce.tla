---------------------------- MODULE Trace_Coalesce ----------------------------
EXTENDS Coalesce, Json, IOUtils
VARIABLE l
Rec == ndJsonDeserialize(IOEnv.TRACE)
E == Rec[l]
Matches(x, r) == \A k \in DOMAIN x : k \in DOMAIN r /\ r[k] = x[k]
Is(k) == l <= Len(Rec) /\ E.e = k /\ l' = l + 1
TInit == InitWith([x |-> 0]) /\ ev = [e |-> "init"] /\ l = 1
TReset == Is("reset") /\ Reset(E.cfg)
Cp == "cp" \in DOMAIN E /\ E.cp = 1
TCreate == Is("create") /\ (IF Cp THEN (CreateP(E.c, E.key) \/ CreateDeferred(E.c, E.key)) ELSE (Create(E.c, E.key) \/ CreateDeferred(E.c, E.key))) /\ Matches(ev', E)
TPoll == Is("poll") /\ PollAny(E.c) /\ Matches(ev', E)
TComplete == Is("complete") /\ Complete(E.c, E.out) /\ Matches(ev', E)
TDrop == Is("drop") /\ Drop(E.c) /\ Matches(ev', E)
TAdvance == Is("advance") /\ Advance(E.d) /\ Matches(ev', E)
\* dropping a future that has already resolved changes nothing
TReap == Is("reap") /\ E.ns = 0 /\ E.ndr = 0 /\ UNCHANGED vars
TNext == TReap \/ TReset \/ TCreate \/ TPoll \/ TComplete \/ TDrop \/ TAdvance
Accepted ==
  LET d == TLCGet("stats").diameter IN
  IF d - 1 = Len(Rec) THEN TRUE ELSE Print(<<"REJECTED", d, ToJson(Rec[d])>>, FALSE)
=============================================================================
