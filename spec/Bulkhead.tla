---------------------------- MODULE Bulkhead ----------------------------
(* tower-resilience-bulkhead: one bulkhead (semaphore of cfg.max permits), any number of
   callers on clones of it, optional wait limit.  One action per poll of the real future
   (everything between two await points), see DESIGN.md 3.1.  Properties C01 and C07.

   ev is the observable event of the last step (what the harness logs); it is the only
   interface to the implementation.  Guards are written G(id, P): they bind only when the
   property `id` is enforced, so that a trace rejected under profile {id} violates id. *)
EXTENDS Integers, Sequences, FiniteSets, TLC
CONSTANTS Callers,      \* caller ids
          CfgSet,       \* configurations explored by model checking
          Enforce,      \* [C01 |-> BOOLEAN, C07 |-> BOOLEAN, X |-> BOOLEAN]
          MaxTime,      \* model-checking horizon (ticks)
          Outs          \* inner outcomes the environment may choose
VARIABLES cfg, now, st, deadline, gid, gout, infl, ngate, lis, ev
vars == <<cfg, now, st, deadline, gid, gout, infl, ngate, lis, ev>>
view == <<cfg, now, st, deadline, gid, gout, infl, ngate, lis>>

NONE == 0 - 1
G(id, P) == Enforce[id] => P

Waiting == {c \in Callers : st[c] = "waiting"}
Granted == {c \in Callers : st[c] = "granted"}
Running == {c \in Callers : st[c] = "running"}
Holding == Granted \cup Running
Free    == cfg.max - Cardinality(Holding)
Resolved(c) == gout[c] \notin {"none", "pending"}
Expired(c)  == deadline[c] # NONE /\ now >= deadline[c]

InitWith(cf) ==
  /\ cfg = cf /\ now = 0
  /\ st = [c \in Callers |-> "idle"]
  /\ deadline = [c \in Callers |-> NONE]
  /\ gid = [c \in Callers |-> 0]
  /\ gout = [c \in Callers |-> "none"]
  /\ infl = {} /\ ngate = 0
  /\ lis = [perm |-> 0, rej |-> 0, fin |-> 0, fail |-> 0]
Init == (\E cf \in CfgSet : InitWith(cf)) /\ ev = [e |-> "init"]

\* the same, as an action (trace validation: one file holds many runs)
Reset(cf) ==
  /\ cfg' = cf /\ now' = 0
  /\ st' = [c \in Callers |-> "idle"]
  /\ deadline' = [c \in Callers |-> NONE]
  /\ gid' = [c \in Callers |-> 0]
  /\ gout' = [c \in Callers |-> "none"]
  /\ infl' = {} /\ ngate' = 0
  /\ lis' = [perm |-> 0, rej |-> 0, fin |-> 0, fail |-> 0]
  /\ ev' = [e |-> "reset"]

\* event skeletons: inner-service activity counters are part of every event
NoInner == [ns |-> 0, nd |-> 0, ndr |-> 0]
Ev(e, c) == [e |-> e, c |-> c, t |-> now] @@ NoInner

\* Service::call: builds the future, nothing else happens
Create(c) ==
  /\ st[c] = "idle"
  /\ st' = [st EXCEPT ![c] = "created"]
  /\ ev' = [res |-> "created"] @@ Ev("create", c)
  /\ UNCHANGED <<cfg, now, deadline, gid, gout, infl, ngate, lis>>

\* A freed permit goes to some waiting caller (tokio: the queue head; the property does
\* not care which).  Returns the set of possible status functions.
GrantOne(s) ==
  LET hold == {c \in Callers : s[c] \in {"granted", "running"}}
      wait == {c \in Callers : s[c] = "waiting"}
  IN IF cfg.max - Cardinality(hold) > 0 /\ wait # {}
     THEN {[s EXCEPT ![w] = "granted"] : w \in wait}
     ELSE {s}

\* the poll in which the permit is obtained and the inner call starts
PollAdmit(c) ==
  /\ st[c] \in {"created", "waiting", "granted"}
  /\ st' = [st EXCEPT ![c] = "running"]
  /\ ngate' = ngate + 1
  /\ gid' = [gid EXCEPT ![c] = ngate + 1]
  /\ gout' = [gout EXCEPT ![c] = "pending"]
  /\ infl' = infl \cup {ngate + 1}
  /\ lis' = [lis EXCEPT !.perm = @ + 1]
  /\ ev' = [e |-> "poll", c |-> c, t |-> now, res |-> "pending", ns |-> 1, si |-> ngate + 1, sc |-> c, nd |-> 0, ndr |-> 0]
  /\ UNCHANGED <<cfg, now, deadline>>

\* first poll, no permit: the caller queues (the timeout starts now)
PollEnqueue(c) ==
  /\ st[c] = "created"
  /\ G("C07", ~(Free > 0 /\ Waiting = {}) /\ cfg.wait # 0)        \* AdmitAtOnce / reject-at-once
  /\ st' = [st EXCEPT ![c] = "waiting"]
  /\ deadline' = [deadline EXCEPT ![c] = IF cfg.wait = NONE THEN NONE ELSE now + cfg.wait]
  /\ ev' = [res |-> "pending"] @@ Ev("poll", c)
  /\ UNCHANGED <<cfg, now, gid, gout, infl, ngate, lis>>

\* rejected: at the first poll (wait = 0, full) or exactly at the deadline, never with a grant
PollReject(c) ==
  /\ st[c] \in {"created", "waiting", "granted"}
  /\ G("C07", \/ (st[c] = "created" /\ cfg.wait = 0 /\ ~(Free > 0 /\ Waiting = {}))
              \/ (st[c] = "waiting" /\ deadline[c] # NONE /\ now = deadline[c]))
  /\ \E s \in GrantOne([st EXCEPT ![c] = "rejected"]) : st' = s
  /\ lis' = [lis EXCEPT !.rej = @ + 1]
  /\ ev' = (IF Enforce["C07"] THEN [kind |-> "timeout"] ELSE <<>>) @@ [res |-> "err"] @@ Ev("poll", c)
  /\ UNCHANGED <<cfg, now, deadline, gid, gout, infl, ngate>>

\* environment: inner call of c resolves (no middleware code runs)
Complete(c, o) ==
  /\ st[c] = "running" /\ gout[c] = "pending"
  /\ gout' = [gout EXCEPT ![c] = o]
  /\ ev' = [e |-> "complete", c |-> c, i |-> gid[c], out |-> o, t |-> now] @@ NoInner
  /\ UNCHANGED <<cfg, now, st, deadline, gid, infl, ngate, lis>>

\* the poll that sees the inner result: permit released, result passed on unchanged
PollDone(c) ==
  /\ st[c] = "running" /\ Resolved(c)
  /\ \E s \in GrantOne([st EXCEPT ![c] = "done"]) : st' = s
  /\ infl' = infl \ {gid[c]}
  /\ lis' = IF gout[c] = "ok" THEN [lis EXCEPT !.fin = @ + 1]
            ELSE IF gout[c] = "panic" THEN lis ELSE [lis EXCEPT !.fail = @ + 1]
  /\ ev' = (IF gout[c] = "ok" THEN [res |-> "ok", val |-> gid[c], rq |-> c]
            ELSE IF gout[c] = "panic" THEN [res |-> "panic"]
            ELSE [res |-> "err", kind |-> (IF gout[c] = "e2" THEN "inner2" ELSE "inner1"), val |-> gid[c]])
           @@ [e |-> "poll", c |-> c, t |-> now, ns |-> 0, nd |-> 1, ndr |-> 0]
  /\ UNCHANGED <<cfg, now, deadline, gid, gout, ngate>>

\* a poll that changes nothing (still queued / inner call still pending): spurious wake-ups are legal
PollStutter(c) ==
  /\ \/ (st[c] = "waiting" /\ G("C07", ~Expired(c)))
     \/ (st[c] = "running" /\ gout[c] = "pending")
     \/ (st[c] = "granted" /\ ~Enforce["C07"])      \* an unused grant is lost capacity: C07's business only
  /\ ev' = [res |-> "pending"] @@ Ev("poll", c)
  /\ UNCHANGED <<cfg, now, st, deadline, gid, gout, infl, ngate, lis>>

\* cancellation at any point
Drop(c) ==
  /\ st[c] \in {"created", "waiting", "granted", "running"}
  /\ \E s \in GrantOne([st EXCEPT ![c] = "cancelled"]) : st' = s
  /\ infl' = IF st[c] = "running" THEN infl \ {gid[c]} ELSE infl
  \* the inner future is dropped unconsumed (it stops counting as in flight: C01's business)
  /\ ev' = (IF Enforce["C01"] THEN [ndr |-> IF st[c] = "running" THEN 1 ELSE 0] ELSE <<>>)
           @@ [e |-> "drop", c |-> c, t |-> now, ns |-> 0, nd |-> 0]
  /\ UNCHANGED <<cfg, now, deadline, gid, gout, ngate, lis>>

\* Nobody can make progress without time passing (urgent executor), and no slot idles
\* while somebody queues.
Quiescent ==
  \A c \in Callers : /\ st[c] \notin {"created", "granted"}
                     /\ ~(st[c] = "waiting" /\ Expired(c))
                     /\ ~(st[c] = "running" /\ Resolved(c))
WorkConserving == Waiting # {} => Free <= 0
Advance(d) ==
  /\ d > 0
  /\ G("C07", Quiescent /\ WorkConserving)
  /\ G("C07", \A c \in Waiting : deadline[c] # NONE => now + d <= deadline[c])   \* no timer is skipped
  /\ now' = now + d
  /\ ev' = [e |-> "advance", d |-> d, t |-> now + d] @@ NoInner
  /\ UNCHANGED <<cfg, st, deadline, gid, gout, infl, ngate, lis>>

\* Runs with a wrapped service whose poll_ready fails now and then (cfg.rdy > 0): a bulkhead that polls readiness itself
\* (say, again right before the inner call) may meet such a failure and pass it on as the wrapped service's error (kind
\* "inner3"); the caller is gone without an inner call, whatever slot it held is free again. The pinned code never
\* does this; the action exists so that an implementation that does is not reported for it.
PollReadyErr(c) ==
  /\ "rdy" \in DOMAIN cfg /\ cfg.rdy > 0
  /\ st[c] \in {"created", "waiting", "granted"}
  /\ \E s \in GrantOne([st EXCEPT ![c] = "rejected"]) : st' = s
  /\ ev' = [res |-> "err", kind |-> "inner3"] @@ Ev("poll", c)
  /\ UNCHANGED <<cfg, now, deadline, gid, gout, infl, ngate, lis>>
PollAny(c) == PollAdmit(c) \/ PollEnqueue(c) \/ PollReject(c) \/ PollDone(c) \/ PollStutter(c) \/ PollReadyErr(c)

\* ---- property predicates (guards on the post-state in trace mode, invariants in MC mode)
InFlightLeMax == Cardinality(infl) <= cfg.max                            \* C01
AdmitOnlyWithSlot == Cardinality(Holding) <= cfg.max                      \* C01 (design level)
NoLostCapacity == (Holding = {}) => Free = cfg.max                        \* C07 (bookkeeping sanity)
ListenersConsistent == lis.perm = ngate                                   \* X

C01Post == InFlightLeMax'
StepOK == G("C01", C01Post)

\* ---- model-checking next-state relation: the code's behaviour = all guards on
MCPollAdmit(c) ==
  \* the real code admits only when it holds a permit
  /\ \/ (st[c] = "created" /\ Free > 0 /\ Waiting = {})
     \/ st[c] = "granted"
  /\ PollAdmit(c)
MCPollReject(c) == st[c] # "granted" /\ PollReject(c)
MCStutter(c) == FALSE   \* spurious polls add nothing at design level
Next ==
  \/ \E c \in Callers : Create(c) \/ MCPollAdmit(c) \/ PollEnqueue(c) \/ MCPollReject(c) \/ PollDone(c) \/ Drop(c)
  \/ \E c \in Callers, o \in Outs : Complete(c, o)
  \/ (now < MaxTime /\ Advance(1))
Spec == Init /\ [][Next]_vars
=============================================================================
