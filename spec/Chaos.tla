---------------------------- MODULE Chaos ----------------------------
(* tower-resilience-chaos (C19): two instances built from the same configuration and seed and
   fed the same requests in the same order (instance A awaits each request before the next,
   instance B issues batches of requests before polling them in that order) must take the same
   decision for request k: one decision function of (seed, position) explains both.
   cfg = [er, lr (percent: 0 | 30 | 100), mn, mx (ms), seeded (1)].  A decision is <<err, d>>:
   error injected or not, and the injected latency in ms (0 = none). *)
EXTENDS Integers, Sequences, TLC
CONSTANTS CfgSet, MaxReq, DSet
VARIABLES cfg, dec, ev
vars == <<cfg, dec, ev>>
K == 1..MaxReq
Lo == IF cfg.mn < cfg.mx THEN cfg.mn ELSE cfg.mx
Hi == IF cfg.mn < cfg.mx THEN cfg.mx ELSE cfg.mn
InitWith(c) == cfg = c /\ dec = [k \in K |-> <<>>]
Init == (\E c \in CfgSet : InitWith(c)) /\ ev = [e |-> "init"]
Reset(c) == cfg' = c /\ dec' = [k \in K |-> <<>>] /\ ev' = [e |-> "reset"]
\* what one request may do under this configuration
Allowed(err, d) ==
  /\ (cfg.er = 0 => ~err) /\ (cfg.er = 100 => err)                  \* extremes of the error rate
  /\ (err => d = 0)                                                   \* an injected error injects no latency
  /\ (~err => \/ (d = 0 /\ (cfg.lr < 100 \/ Lo = 0))                \* no latency (always, when the rate is 0)
              \/ (cfg.lr > 0 /\ Lo <= d /\ d <= Hi))                 \* injected latency lies within the configured range
\* request k observed on instance i: err, latency d before the inner call, ns inner calls started, payload intact
Req(i, k, err, d, ns, intact) ==
  /\ k \in K /\ Allowed(err, d)
  /\ ns = (IF err THEN 0 ELSE 1)                                      \* an injected error means the inner service is not called
  /\ (~err => intact)                                                 \* otherwise the call passes through unchanged
  /\ (IF dec[k] = <<>> THEN dec' = [dec EXCEPT ![k] = <<err, d>>]
      ELSE (dec[k] = <<err, d>> /\ UNCHANGED dec))                    \* same seed, same position: same decision
  /\ ev' = [e |-> "req", inst |-> i, k |-> k, err |-> err, d |-> d, ns |-> ns, intact |-> intact]
  /\ UNCHANGED cfg
Next == \E i \in {"A", "B"}, k \in K, err \in BOOLEAN, d \in DSet : Req(i, k, err, d, IF err THEN 0 ELSE 1, TRUE)
Spec == Init /\ [][Next]_vars
\* design level: the decisions recorded are always allowed ones
DecisionsAllowed == \A k \in K : dec[k] # <<>> => Allowed(dec[k][1], dec[k][2])
Transparent == (cfg.er = 0 /\ cfg.lr = 0) => \A k \in K : dec[k] # <<>> => dec[k] = <<FALSE, 0>>
=============================================================================
