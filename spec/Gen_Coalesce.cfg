CONSTANTS
  Callers = {1, 2, 3, 4, 5, 6}
  CfgSet <- MCCfgSet
  MaxTime = 3
  Outs <- MCOuts
  Keys <- MCKeys
INIT Init
NEXT Next

INVARIANT GenPrint
CHECK_DEADLOCK FALSE
