CONSTANTS
  MaxEvents = 4
INIT MInit
NEXT MNext
INVARIANT AllDelivered
CHECK_DEADLOCK FALSE
