---------------------------- MODULE MC_Bulkhead ----------------------------
EXTENDS Bulkhead, Json
MCCfgSet == [max : {1, 2}, wait : {NONE, 0, 2}]
MCEnforce == [C01 |-> TRUE, C07 |-> TRUE, X |-> TRUE]
MCOuts == {"ok", "e1", "panic"}
\* invariants (all guards on = the code's behaviour as modelled)
Inv == InFlightLeMax /\ AdmitOnlyWithSlot /\ NoLostCapacity /\ ListenersConsistent
       /\ (Waiting # {} => Free <= 0)                      \* a free slot never coexists with a queue
\* behaviours for direction 1 (simulation mode, -workers 1): one line per state
\* transition tour: every transition of the (small) model, printed with the level of its source state
TourDump == PrintT(<<"EDGE", TLCGet("level"), ToJson([f |-> view, t |-> view', cfg |-> cfg, ev |-> ev'])>>)
GenPrint == PrintT(<<"GEN", TLCGet("level"), ToJson([cfg |-> cfg, ev |-> ev])>>)
=============================================================================
