---------------------------- MODULE Readiness ----------------------------
(* Design-level model of a layer honouring the Tower readiness contract (C20): the layer
   owns one inner instance `cur`; its poll_ready drives cur to readiness; its call takes cur
   and leaves a fresh, not-ready clone behind; retries re-poll their own instance first.
   Invariant: no inner call on an instance that is not ready.  With Honour = FALSE the layer
   calls a fresh clone instead (the defect found in ten layers) and TLC finds the violation. *)
EXTENDS Integers, FiniteSets, TLC
CONSTANTS MaxInst, Honour
VARIABLES ready, cur, n, outerReady, held, bad
vars == <<ready, cur, n, outerReady, held, bad>>
Init == ready = [i \in 0..MaxInst |-> FALSE] /\ cur = 0 /\ n = 0 /\ outerReady = FALSE /\ held = {} /\ bad = FALSE
PollReady == /\ ready' = [ready EXCEPT ![cur] = TRUE] /\ outerReady' = TRUE /\ UNCHANGED <<cur, n, held, bad>>
Call ==
  /\ outerReady /\ n < MaxInst
  /\ IF Honour
     THEN \* take the polled instance, leave a clone behind
          /\ bad' = (bad \/ ~ready[cur]) /\ ready' = [ready EXCEPT ![cur] = FALSE, ![n + 1] = FALSE]
          /\ held' = held \cup {cur} /\ cur' = n + 1
     ELSE \* call a fresh clone that was never polled
          /\ bad' = (bad \/ ~ready[n + 1]) /\ ready' = [ready EXCEPT ![n + 1] = FALSE]
          /\ held' = held \cup {n + 1} /\ UNCHANGED cur
  /\ n' = n + 1 /\ outerReady' = FALSE
\* a retry / hedged attempt on an instance the call holds: poll it ready again first
Retry(i) ==
  /\ i \in held
  /\ IF Honour THEN (bad' = bad /\ ready' = [ready EXCEPT ![i] = FALSE])      \* poll_ready(i) then call(i)
     ELSE (bad' = (bad \/ ~ready[i]) /\ ready' = [ready EXCEPT ![i] = FALSE])
  /\ UNCHANGED <<cur, n, outerReady, held>>
Next == PollReady \/ Call \/ \E i \in 0..MaxInst : Retry(i)
Spec == Init /\ [][Next]_vars
Contract == ~bad
=============================================================================
