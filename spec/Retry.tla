---------------------------- MODULE Retry ----------------------------
(* tower-resilience-retry (C05): the retry loop of one request, several requests sharing one
   budget.  cfg = [max, perReq (1: max_attempts = key - 1 per request), pred ("all" | "noe2":
   errors with code 2 are not retryable), bo ("fixed" | "exp"), b0, cap, budget (-1 = none,
   else initial tokens), bmax]. *)
EXTENDS Integers, Sequences, FiniteSets, TLC
CONSTANTS Callers, CfgSet, MaxTime, Outs, Keys
VARIABLES cfg, now, st, key, attempt, until, untilHi, gout, gid, ngate, tokens, blim, ev
vars == <<cfg, now, st, key, attempt, until, untilHi, gout, gid, ngate, tokens, blim, ev>>
view == <<cfg, now, st, key, attempt, until, untilHi, gout, gid, ngate, tokens, blim>>
Min2(a, b) == IF a < b THEN a ELSE b
HasBudget0 == cfg.budget >= 0
RECURSIVE Pow2(_)
Pow2(k) == IF k = 0 THEN 1 ELSE 2 * Pow2(k - 1)
\* delay before retry number k+1 (k = attempts made so far - 1); see Backoff.tla for the schedule
Backoff(k) == IF cfg.bo = "fixed" THEN cfg.b0 ELSE Min2(cfg.b0 * Pow2(IF k > 20 THEN 20 ELSE k), cfg.cap)
\* jittered backoff (randomization factor 1/2): the sleep ends somewhere in [base/2, 3*base/2] (+1 ms timer rounding)
BackoffLo(k) == IF cfg.bo = "rand" THEN Backoff(k) \div 2 ELSE Backoff(k)
BackoffHi(k) == IF cfg.bo = "rand" THEN (3 * Backoff(k) + 1) \div 2 + 1 ELSE Backoff(k)
\* budget kinds: "tb" token bucket (cost 1, deposit 1, ceiling bmax); "aimd": cost / amount from cfg, the ceiling blim
\* moves by the AIMD rule (halved towards bmin on a refused withdrawal, +1 towards bmax on a deposit)
Aimd == "btype" \in DOMAIN cfg /\ cfg.btype = "aimd"
Cost == IF Aimd THEN cfg.cost ELSE 1
Max2(a, b) == IF a > b THEN a ELSE b
\* C05 is about grants, not about the AIMD ceiling's dynamics (C08 / C13 bound it): a deposit is capped by some
\* ceiling within [bmin, bmax], the ceiling may move anywhere within those bounds (sets of <<tokens', blim'>>)
AimdLims == cfg.bmin..cfg.bmax
AfterDeposit == IF ~HasBudget0 THEN {<<tokens, blim>>}
                ELSE IF Aimd THEN {<<Min2(tokens + cfg.amount, c), l2>> : c \in AimdLims, l2 \in AimdLims}
                ELSE {<<Min2(tokens + 1, cfg.bmax), blim>>}
AfterRefusal == IF Aimd THEN {<<tokens, l2>> : l2 \in AimdLims} ELSE {<<tokens, blim>>}
MaxAtt(c) == IF cfg.perReq = 1 THEN key[c] - 1 ELSE cfg.max
Retryable(o) == o = "e1" \/ (o = "e2" /\ cfg.pred = "all")
HasBudget == cfg.budget >= 0
InitWith(cf) ==
  /\ cfg = cf /\ now = 0 /\ st = [c \in Callers |-> "idle"] /\ key = [c \in Callers |-> 1]
  /\ attempt = [c \in Callers |-> 0] /\ until = [c \in Callers |-> 0] /\ gout = [c \in Callers |-> "none"]
  /\ gid = [c \in Callers |-> 0] /\ ngate = 0 /\ tokens = (IF cf.budget >= 0 THEN cf.budget ELSE 0)
  /\ untilHi = [c \in Callers |-> 0] /\ blim = cf.bmax
Init == (\E cf \in CfgSet : InitWith(cf)) /\ ev = [e |-> "init"]
Reset(cf) ==
  /\ cfg' = cf /\ now' = 0 /\ st' = [c \in Callers |-> "idle"] /\ key' = [c \in Callers |-> 1]
  /\ attempt' = [c \in Callers |-> 0] /\ until' = [c \in Callers |-> 0] /\ gout' = [c \in Callers |-> "none"]
  /\ gid' = [c \in Callers |-> 0] /\ ngate' = 0 /\ tokens' = (IF cf.budget >= 0 THEN cf.budget ELSE 0)
  /\ untilHi' = [c \in Callers |-> 0] /\ blim' = cf.bmax
  /\ ev' = [e |-> "reset"]
Bal(t) == IF HasBudget THEN [bal |-> t] ELSE <<>>

Create(c, k) ==
  /\ st[c] = "idle" /\ st' = [st EXCEPT ![c] = "created"] /\ key' = [key EXCEPT ![c] = k]
  /\ ev' = [e |-> "create", c |-> c, key |-> k, t |-> now, res |-> "created", ns |-> 0] @@ Bal(tokens)
  /\ UNCHANGED <<cfg, now, attempt, until, untilHi, gout, gid, ngate, tokens, blim>>
\* the property is silent on whether the first attempt starts in Service::call or at the first poll: both are accepted
CreateEager(c, k) ==
  /\ st[c] = "idle" /\ st' = [st EXCEPT ![c] = "calling"] /\ key' = [key EXCEPT ![c] = k]
  /\ gout' = [gout EXCEPT ![c] = "pending"] /\ gid' = [gid EXCEPT ![c] = ngate + 1] /\ ngate' = ngate + 1
  /\ ev' = [e |-> "create", c |-> c, key |-> k, t |-> now, res |-> "created", ns |-> 1, si |-> ngate + 1, sc |-> c] @@ Bal(tokens)
  /\ UNCHANGED <<cfg, now, attempt, until, untilHi, tokens, blim>>
\* an attempt starts: first poll, or the poll after the backoff sleep (never before it is over)
PollAttempt(c) ==
  /\ \/ st[c] = "created"
     \/ (st[c] = "sleeping" /\ now >= until[c] /\ now <= untilHi[c])
  /\ st' = [st EXCEPT ![c] = "calling"] /\ gout' = [gout EXCEPT ![c] = "pending"]
  /\ gid' = [gid EXCEPT ![c] = ngate + 1] /\ ngate' = ngate + 1
  /\ ev' = [e |-> "poll", c |-> c, t |-> now, res |-> "pending", ns |-> 1, si |-> ngate + 1, sc |-> c, nd |-> 0] @@ Bal(tokens)
  /\ UNCHANGED <<cfg, now, key, attempt, until, untilHi, tokens, blim>>
Complete(c, o) ==
  /\ st[c] = "calling" /\ gout[c] = "pending" /\ gout' = [gout EXCEPT ![c] = o]
  /\ ev' = [e |-> "complete", c |-> c, i |-> gid[c], out |-> o, t |-> now] @@ Bal(tokens)
  /\ UNCHANGED <<cfg, now, st, key, attempt, until, untilHi, gid, ngate, tokens, blim>>
Fin(c, r, tb) ==
  /\ st' = [st EXCEPT ![c] = "done"] /\ tokens' = tb[1] /\ blim' = tb[2]
  /\ ev' = r @@ [e |-> "poll", c |-> c, t |-> now, ns |-> 0, nd |-> 1] @@ Bal(tb[1])
  /\ UNCHANGED <<attempt, until, untilHi>>
ErrEv(c) == [res |-> "err", kind |-> (IF gout[c] = "e1" THEN "inner1" ELSE "inner2"), val |-> gid[c]]
\* the poll that sees the outcome of the current attempt
PollOutcome(c) ==
  /\ st[c] = "calling" /\ gout[c] \in {"ok", "e1", "e2"}
  /\ IF gout[c] = "ok"
     THEN \E tb \in AfterDeposit : Fin(c, [res |-> "ok", val |-> gid[c], rq |-> c], tb)   \* success funds the budget
     ELSE IF ~Retryable(gout[c]) THEN Fin(c, ErrEv(c), <<tokens, blim>>)               \* refused by the predicate
     ELSE IF attempt[c] + 1 >= MaxAtt(c) THEN Fin(c, ErrEv(c), <<tokens, blim>>)      \* attempts exhausted
     ELSE IF HasBudget /\ tokens < Cost THEN \E tb \in AfterRefusal : Fin(c, ErrEv(c), tb)   \* no grant, no retry
     ELSE /\ st' = [st EXCEPT ![c] = "sleeping"] /\ attempt' = [attempt EXCEPT ![c] = @ + 1]
          /\ until' = [until EXCEPT ![c] = now + BackoffLo(attempt[c])]
          /\ untilHi' = [untilHi EXCEPT ![c] = now + BackoffHi(attempt[c])]
          /\ tokens' = (IF HasBudget THEN tokens - Cost ELSE tokens) /\ blim' = blim
          /\ ev' = [e |-> "poll", c |-> c, t |-> now, res |-> "pending", ns |-> 0, nd |-> 1] @@ Bal(IF HasBudget THEN tokens - Cost ELSE tokens)
  /\ UNCHANGED <<cfg, now, key, gout, gid, ngate>>
\* the attempt is polled inside the request's own future, so its panic is the request's (in-situ runs; C05's own runs
\* inject no panics): no further attempt, no budget movement
PollPanic(c) ==
  /\ st[c] = "calling" /\ gout[c] = "panic" /\ st' = [st EXCEPT ![c] = "done"]
  /\ ev' = [e |-> "poll", c |-> c, t |-> now, res |-> "panic", ns |-> 0, nd |-> 1] @@ Bal(tokens)
  /\ UNCHANGED <<cfg, now, key, attempt, until, untilHi, gout, gid, ngate, tokens, blim>>
PollStutter(c) ==
  /\ \/ (st[c] = "calling" /\ gout[c] = "pending")
     \/ st[c] = "created"                          \* an extra suspension point before the first attempt (Advance still needs it started)
     \/ (st[c] = "sleeping" /\ now < untilHi[c])
  /\ ev' = [e |-> "poll", c |-> c, t |-> now, res |-> "pending", ns |-> 0, nd |-> 0] @@ Bal(tokens)
  /\ UNCHANGED <<cfg, now, st, key, attempt, until, untilHi, gout, gid, ngate, tokens, blim>>
Drop(c) ==
  /\ st[c] \in {"created", "calling", "sleeping"} /\ st' = [st EXCEPT ![c] = "done"]
  /\ ev' = [e |-> "drop", c |-> c, t |-> now, ns |-> 0] @@ Bal(tokens)
  /\ UNCHANGED <<cfg, now, key, attempt, until, untilHi, gout, gid, ngate, tokens, blim>>
Quiescent == \A c \in Callers : /\ st[c] # "created" /\ ~(st[c] = "calling" /\ gout[c] \notin {"none", "pending"})
                                /\ ~(st[c] = "sleeping" /\ now >= untilHi[c])
Advance(d) ==
  /\ d > 0 /\ Quiescent /\ \A c \in Callers : st[c] = "sleeping" => now + d <= untilHi[c]
  /\ now' = now + d /\ ev' = [e |-> "advance", d |-> d, t |-> now + d] @@ Bal(tokens)
  /\ UNCHANGED <<cfg, st, key, attempt, until, untilHi, gout, gid, ngate, tokens, blim>>
PollAny(c) == PollAttempt(c) \/ PollOutcome(c) \/ PollStutter(c) \/ PollPanic(c)
Next ==
  \/ \E c \in Callers : (\E k \in Keys : Create(c, k)) \/ PollAttempt(c) \/ PollOutcome(c)
  \/ \E c \in Callers, o \in Outs : Complete(c, o)
  \/ (now < MaxTime /\ Advance(1))
Spec == Init /\ [][Next]_vars
\* C05 at design level
AttemptsBounded == \A c \in Callers : attempt[c] + 1 <= (IF MaxAtt(c) > 1 THEN MaxAtt(c) ELSE 1)
BudgetNonNegative == tokens >= 0 /\ (HasBudget => tokens <= cfg.bmax) /\ (Aimd => cfg.bmin <= blim /\ blim <= cfg.bmax)
=============================================================================
