---------------------------- MODULE BudgetImpl ----------------------------
(* Retry budgets of tower-resilience-retry at the grain of single atomic operations
   (C08), one program counter per thread.  Token bucket and AIMD budget (the AIMD budget's
   ceiling is the racy load/store AimdController of tower-resilience-core, C13).
   AtomicDeposit = TRUE: deposit is a CAS loop (fetch_update); FALSE: load; store. *)
EXTENDS Integers, Sequences, FiniteSets, TLC
CONSTANTS Threads, OpSet, CfgSet, AtomicDeposit
VARIABLES cfg, op, tokens, limit, pc, cur, lim, res, grants, deposits
vars == <<cfg, op, tokens, limit, pc, cur, lim, res, grants, deposits>>
\* cfg = [kind: "tb"|"aimd", initial, max, cost, amount, minb, fnum (decrease factor in quarters)]
Min2(a, b) == IF a < b THEN a ELSE b
Max2(a, b) == IF a > b THEN a ELSE b
Init ==
  /\ cfg \in CfgSet
  /\ op \in [Threads -> OpSet]
  /\ tokens = cfg.initial /\ limit = cfg.max
  /\ pc = [t \in Threads |-> "idle"] /\ cur = [t \in Threads |-> 0] /\ lim = [t \in Threads |-> 0]
  /\ res = [t \in Threads |-> "none"] /\ grants = 0 /\ deposits = 0
Set(t, p) == pc' = [pc EXCEPT ![t] = p]
Done(t, r) == pc' = [pc EXCEPT ![t] = "done"] /\ res' = [res EXCEPT ![t] = r]

Call(t) == pc[t] = "idle" /\ Set(t, IF op[t] = "W" THEN "w_load" ELSE IF cfg.kind = "aimd" THEN "d_lim" ELSE "d_load")
           /\ UNCHANGED <<cfg, op, tokens, limit, cur, lim, res, grants, deposits>>
\* try_withdraw: load; if too little -> (aimd: record_failure) false; else CAS, retry on failure
WLoad(t) == /\ pc[t] = "w_load" /\ cur' = [cur EXCEPT ![t] = tokens]
            /\ IF tokens < cfg.cost
               THEN (IF cfg.kind = "aimd" THEN Set(t, "rf_load") /\ UNCHANGED res ELSE Done(t, "false"))
               ELSE Set(t, "w_cas") /\ UNCHANGED res
            /\ UNCHANGED <<cfg, op, tokens, limit, lim, grants, deposits>>
WCas(t) == /\ pc[t] = "w_cas"
           /\ IF tokens = cur[t]
              THEN tokens' = cur[t] - cfg.cost /\ grants' = grants + 1 /\ Done(t, "true")
              ELSE Set(t, "w_load") /\ UNCHANGED <<tokens, grants, res>>
           /\ UNCHANGED <<cfg, op, limit, cur, lim, deposits>>
\* AimdController::record_failure: load; store max(floor(l * f), min)
RfLoad(t) == pc[t] = "rf_load" /\ lim' = [lim EXCEPT ![t] = limit] /\ Set(t, "rf_store")
             /\ UNCHANGED <<cfg, op, tokens, limit, cur, res, grants, deposits>>
RfStore(t) == pc[t] = "rf_store" /\ limit' = Max2((lim[t] * cfg.fnum) \div 4, cfg.minb) /\ Done(t, "false")
              /\ UNCHANGED <<cfg, op, tokens, cur, lim, grants, deposits>>
\* deposit
DLim(t) == pc[t] = "d_lim" /\ lim' = [lim EXCEPT ![t] = limit] /\ Set(t, "d_load")
           /\ UNCHANGED <<cfg, op, tokens, limit, cur, res, grants, deposits>>
Ceil(t) == IF cfg.kind = "aimd" THEN lim[t] ELSE cfg.max
DLoad(t) == pc[t] = "d_load" /\ cur' = [cur EXCEPT ![t] = tokens] /\ Set(t, "d_write")
            /\ UNCHANGED <<cfg, op, tokens, limit, lim, res, grants, deposits>>
AfterDeposit(t) == IF cfg.kind = "aimd" THEN Set(t, "rs_load") /\ UNCHANGED res ELSE Done(t, "unit")
DWrite(t) == /\ pc[t] = "d_write"
             /\ IF AtomicDeposit /\ tokens # cur[t]
                THEN Set(t, "d_load") /\ UNCHANGED <<tokens, deposits, res>>          \* CAS failed, retry
                ELSE tokens' = Min2(cur[t] + cfg.amount, Ceil(t)) /\ deposits' = deposits + 1 /\ AfterDeposit(t)
             /\ UNCHANGED <<cfg, op, limit, cur, lim, grants>>
\* AimdController::record_success: load; store min(l + 1, max)
RsLoad(t) == pc[t] = "rs_load" /\ lim' = [lim EXCEPT ![t] = limit] /\ Set(t, "rs_store")
             /\ UNCHANGED <<cfg, op, tokens, limit, cur, res, grants, deposits>>
RsStore(t) == pc[t] = "rs_store" /\ limit' = Min2(lim[t] + 1, cfg.max) /\ Done(t, "unit")
              /\ UNCHANGED <<cfg, op, tokens, cur, lim, grants, deposits>>
Next == \E t \in Threads : Call(t) \/ WLoad(t) \/ WCas(t) \/ RfLoad(t) \/ RfStore(t) \/ DLim(t) \/ DLoad(t) \/ DWrite(t) \/ RsLoad(t) \/ RsStore(t)
Spec == Init /\ [][Next]_vars

\* C08
Conservation == grants * cfg.cost + tokens <= cfg.initial + deposits * cfg.amount
BalanceLeMax == tokens <= cfg.max /\ tokens >= 0
\* C13 (AIMD controller shared with the adaptive limiter)
LimitInBounds == cfg.minb <= limit /\ limit <= cfg.max
=============================================================================
