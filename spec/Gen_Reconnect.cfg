CONSTANTS
  Callers = {1, 2}
  CfgSet <- MCCfgSet
  MaxTime = 14
  Outs <- MCOuts
INIT Init
NEXT Next

INVARIANT GenPrint
CONSTRAINT Bound
CHECK_DEADLOCK FALSE
