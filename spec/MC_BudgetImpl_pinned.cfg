CONSTANTS
  Threads = {1, 2, 3}
  OpSet <- Ops
  CfgSet <- MCCfgSet
  AtomicDeposit = FALSE
INIT Init
NEXT Next
INVARIANT Inv
CHECK_DEADLOCK FALSE
