---------------------------- MODULE RateLimiter ----------------------------
(* tower-resilience-ratelimiter: one limiter shared by all clones, three window types.
   The inner service answers at once (the property is about admission), so an admitted
   call's poll returns ok having started exactly one inner call.  Properties C02, C15.

   Implementation-shaped state: fx (fixed window), lg (sliding log), ct (sliding counter).
   Observer state for C02: adm (admission instants, sliding log bound) and wnd, an
   angelically chosen cutting of time into windows of length >= P with <= L admissions. *)
EXTENDS Integers, Sequences, FiniteSets, TLC
CONSTANTS Callers, CfgSet, Enforce, MaxTime, MCMode
VARIABLES cfg, now, st, firstPoll, wakeAt, fx, lg, ct, adm, wnd, ngate, lastAct, ev
vars == <<cfg, now, st, firstPoll, wakeAt, fx, lg, ct, adm, wnd, ngate, lastAct, ev>>
view == <<cfg, now, st, firstPoll, wakeAt, fx, lg, ct, adm, wnd, ngate, lastAct>>

G(id, P) == Enforce[id] => P
NEG == 0 - 1000000

InitWith(cf) ==
  /\ cfg = cf /\ now = 0
  /\ st = [c \in Callers |-> "idle"]
  /\ firstPoll = [c \in Callers |-> 0]
  /\ wakeAt = [c \in Callers |-> 0]
  /\ fx = [avail |-> cf.L, ps |-> 0, n |-> 0]       \* n: admissions in the code's current window
  /\ lg = <<>>
  /\ ct = [prev |-> 0, cur |-> 0, bs |-> 0]
  /\ adm = <<>>
  /\ wnd = [start |-> NEG, count |-> 0, last |-> NEG]
  /\ ngate = 0 /\ lastAct = 0
Init == (\E cf \in CfgSet : InitWith(cf)) /\ ev = [e |-> "init"]
Reset(cf) ==
  /\ cfg' = cf /\ now' = 0
  /\ st' = [c \in Callers |-> "idle"]
  /\ firstPoll' = [c \in Callers |-> 0]
  /\ wakeAt' = [c \in Callers |-> 0]
  /\ fx' = [avail |-> cf.L, ps |-> 0, n |-> 0]
  /\ lg' = <<>>
  /\ ct' = [prev |-> 0, cur |-> 0, bs |-> 0]
  /\ adm' = <<>>
  /\ wnd' = [start |-> NEG, count |-> 0, last |-> NEG]
  /\ ngate' = 0 /\ lastAct' = 0
  /\ ev' = [e |-> "reset"]

\* ---- try_acquire of the three window types: set of <<verdict, wait, fx', lg', ct'>>
FixedTry ==
  LET f1 == IF now - fx.ps >= cfg.P THEN [avail |-> cfg.L, ps |-> now, n |-> 0] ELSE fx
      w  == cfg.P - (now - f1.ps)
  IN IF f1.avail > 0 THEN {<<"permit", 0, [f1 EXCEPT !.avail = @ - 1, !.n = @ + 1], lg, ct>>}
     ELSE IF w > cfg.T THEN {<<"reject", 0, f1, lg, ct>>} ELSE {<<"wait", w, f1, lg, ct>>}
LogTry ==
  LET l1 == SelectSeq(lg, LAMBDA t : now - t < cfg.P)
  IN IF Len(l1) < cfg.L THEN {<<"permit", 0, fx, Append(l1, now), ct>>}
     ELSE (LET w == (Head(l1) + cfg.P) - now IN
           IF w > cfg.T THEN {<<"reject", 0, fx, l1, ct>>} ELSE {<<"wait", w, fx, l1, ct>>})
CtRot ==
  LET el == now - ct.bs IN
  IF el >= cfg.P
  THEN (IF el >= 2 * cfg.P THEN [prev |-> 0, cur |-> 0, bs |-> now] ELSE [prev |-> ct.cur, cur |-> 0, bs |-> now])
  ELSE ct
\* weighted < L  <=>  prev*(P-el) + cur*P < L*P (exact rationals). When both sides are equal
\* and the previous bucket still weighs in with a fractional weight (0 < el < P), the code's f64 comparison may round
\* either way; on the bucket boundary itself (el = 0) the weight is exactly 1 and the comparison is exact.
\* The wait estimate is floating point and irrelevant: "come back in w" for any 0 < w <= T,
\* or reject.  In trace mode the wait is not needed (wakeAt is unobserved) and fixed to 0.
CtWaits == IF MCMode THEN 1..cfg.T ELSE (IF cfg.T > 0 THEN {0} ELSE {})
CtTry ==
  LET c1  == CtRot
      el  == IF now - c1.bs > cfg.P THEN cfg.P ELSE now - c1.bs
      lhs == c1.prev * (cfg.P - el) + c1.cur * cfg.P
      rhs == cfg.L * cfg.P
      yes == {<<"permit", 0, fx, lg, [c1 EXCEPT !.cur = @ + 1]>>}
      no  == {<<"wait", w, fx, lg, c1>> : w \in CtWaits} \cup {<<"reject", 0, fx, lg, c1>>}
  IN IF lhs < rhs THEN yes
     ELSE IF lhs = rhs /\ c1.prev * (cfg.P - el) > 0 /\ el > 0 THEN yes \cup no    \* (at el = 0 the weight is exactly 1: no rounding)
     ELSE no
Try == IF cfg.win = "fixed" THEN FixedTry ELSE IF cfg.win = "log" THEN LogTry ELSE CtTry

\* ---- C02 observers over admissions (inner starts), independent of the code's bookkeeping
WndAdmit(w, t) ==
  (IF w.count < cfg.L THEN {[w EXCEPT !.count = @ + 1, !.last = t]} ELSE {})
  \cup (LET b == IF w.start + cfg.P > w.last + 1 THEN w.start + cfg.P ELSE w.last + 1
        IN IF b <= t THEN {[start |-> b, count |-> 1, last |-> t]} ELSE {})
LogOk(a, t) == IF Len(a) < cfg.L THEN TRUE ELSE t - a[Len(a) - cfg.L + 1] >= cfg.P
\* one admission at the current instant
Observe ==
  /\ adm' = (IF cfg.win = "log" THEN Append(adm, now) ELSE adm)
  /\ (IF MCMode THEN wnd' = wnd            \* at design level C02 is the invariants below, not a guard
      ELSE IF cfg.win = "log" THEN (wnd' = wnd /\ G("C02", LogOk(adm, now)))
      ELSE IF Enforce["C02"] THEN wnd' \in WndAdmit(wnd, now)
      ELSE wnd' = wnd)
NoObserve == UNCHANGED <<adm, wnd>>

Create(c) ==
  /\ st[c] = "idle"
  /\ st' = [st EXCEPT ![c] = "created"]
  /\ ev' = [e |-> "create", c |-> c, t |-> now, res |-> "created", ns |-> 0]
  /\ UNCHANGED <<cfg, now, firstPoll, wakeAt, fx, lg, ct, adm, wnd, ngate, lastAct>>

\* cfg.slow = 1: the inner call stays pending until the environment resolves it (ok / error / panic) or the
\* caller is cancelled; none of that gives a permit back: st "running", then "res_<outcome>", then "done"
Slow == "slow" \in DOMAIN cfg /\ cfg.slow = 1
EvAdmit(c) == IF Slow THEN [e |-> "poll", c |-> c, t |-> now, res |-> "pending", ns |-> 1, nd |-> 0, si |-> ngate + 1]
              ELSE [e |-> "poll", c |-> c, t |-> now, res |-> "ok", ns |-> 1, nd |-> 1, si |-> ngate + 1, val |-> ngate + 1, rq |-> c]
Admitted(c) == IF Slow THEN "running" ELSE "done"
EvPend(c)  == [e |-> "poll", c |-> c, t |-> now, res |-> "pending", ns |-> 0]
EvRej(c)   == [e |-> "poll", c |-> c, t |-> now, res |-> "err", kind |-> "limited", ns |-> 0]

\* ---- profile C15 (and MC): the code's decisions, try_acquire by try_acquire
PollFirst15(c) ==
  /\ st[c] = "created"
  /\ firstPoll' = [firstPoll EXCEPT ![c] = now] /\ lastAct' = now
  /\ \E r \in Try :
       /\ fx' = r[3] /\ lg' = r[4] /\ ct' = r[5]
       /\ \/ /\ r[1] = "permit"                      \* spare capacity: admitted at once
             /\ st' = [st EXCEPT ![c] = Admitted(c)] /\ ngate' = ngate + 1 /\ ev' = EvAdmit(c)
             /\ Observe /\ UNCHANGED wakeAt
          \/ /\ r[1] = "wait" /\ cfg.T > 0            \* told to come back in r[2] <= T
             /\ st' = [st EXCEPT ![c] = "sleeping"] /\ wakeAt' = [wakeAt EXCEPT ![c] = now + r[2]]
             /\ ev' = EvPend(c) /\ NoObserve /\ UNCHANGED ngate
          \/ /\ r[1] = "reject"
             /\ st' = [st EXCEPT ![c] = "done"] /\ ev' = EvRej(c) /\ NoObserve /\ UNCHANGED <<ngate, wakeAt>>
  /\ UNCHANGED <<cfg, now>>
\* second attempt after the sleep: a permit of the window then current, or rejection
PollWake15(c) ==
  /\ st[c] = "sleeping"
  /\ now > firstPoll[c] /\ now - firstPoll[c] <= cfg.T          \* DecidedWithinTimeout
  /\ (MCMode => now >= wakeAt[c])
  /\ lastAct' = now
  /\ \E r \in Try :
       /\ fx' = r[3] /\ lg' = r[4] /\ ct' = r[5]
       /\ \/ /\ r[1] = "permit"
             /\ st' = [st EXCEPT ![c] = Admitted(c)] /\ ngate' = ngate + 1 /\ ev' = EvAdmit(c) /\ Observe
          \/ /\ r[1] # "permit"
             /\ st' = [st EXCEPT ![c] = "done"] /\ ev' = EvRej(c) /\ NoObserve /\ UNCHANGED ngate
  /\ UNCHANGED <<cfg, now, firstPoll, wakeAt>>

\* ---- profile C02 alone: any decision, only the admissions are observed
PollAny02(c) ==
  /\ st[c] \in {"created", "sleeping"}
  /\ \/ (st' = [st EXCEPT ![c] = Admitted(c)] /\ ngate' = ngate + 1 /\ ev' = [e |-> "poll", c |-> c, t |-> now, ns |-> 1] /\ Observe)
     \/ (st' = [st EXCEPT ![c] = "sleeping"] /\ ev' = [e |-> "poll", c |-> c, t |-> now, res |-> "pending", ns |-> 0] /\ NoObserve /\ UNCHANGED ngate)
     \/ (st' = [st EXCEPT ![c] = "done"] /\ ev' = [e |-> "poll", c |-> c, t |-> now, res |-> "err", ns |-> 0] /\ NoObserve /\ UNCHANGED ngate)
  /\ UNCHANGED <<cfg, now, firstPoll, wakeAt, fx, lg, ct, lastAct>>

\* slow inner service: resolution by the environment, the poll that passes the outcome on
Complete(c, o) ==
  /\ st[c] = "running" /\ st' = [st EXCEPT ![c] = "res_" \o o]
  /\ ev' = [e |-> "complete", c |-> c, out |-> o, t |-> now]
  /\ UNCHANGED <<cfg, now, firstPoll, wakeAt, fx, lg, ct, adm, wnd, ngate, lastAct>>
PollResult(c) ==
  /\ st[c] \in {"res_ok", "res_e1", "res_panic"} /\ st' = [st EXCEPT ![c] = "done"]
  /\ ev' = (IF st[c] = "res_ok" THEN [res |-> "ok", rq |-> c] ELSE IF st[c] = "res_e1" THEN [res |-> "err", kind |-> "inner1"] ELSE [res |-> "panic"])
           @@ [e |-> "poll", c |-> c, t |-> now, ns |-> 0, nd |-> 1]
  /\ UNCHANGED <<cfg, now, firstPoll, wakeAt, fx, lg, ct, adm, wnd, ngate, lastAct>>
\* spurious poll of a sleeper before its timer, or of a caller whose inner call is still pending
PollStutter(c) ==
  /\ st[c] \in {"sleeping", "running"}
  /\ ev' = EvPend(c)
  /\ UNCHANGED <<cfg, now, st, firstPoll, wakeAt, fx, lg, ct, adm, wnd, ngate, lastAct>>

PollAny(c) ==
  \/ PollResult(c)
  \/ (st[c] = "running" /\ PollStutter(c))
  \/ (st[c] # "running" /\ IF Enforce["C15"] THEN (PollFirst15(c) \/ PollWake15(c) \/ PollStutter(c)) ELSE PollAny02(c))

\* cancellation while waiting leaves the limiter as if the caller had never existed
Drop(c) ==
  /\ st[c] \in {"created", "sleeping", "running", "res_ok", "res_e1", "res_panic"}
  /\ st' = [st EXCEPT ![c] = "done"]
  /\ ev' = [e |-> "drop", c |-> c, t |-> now, ns |-> 0]
  /\ UNCHANGED <<cfg, now, firstPoll, wakeAt, fx, lg, ct, adm, wnd, ngate, lastAct>>

Advance(d) ==
  /\ d > 0
  /\ G("C15", \A c \in Callers : st[c] # "created")
  /\ (MCMode => \A c \in Callers : st[c] = "sleeping" => now < wakeAt[c])
  /\ now' = now + d
  /\ ev' = [e |-> "advance", d |-> d, t |-> now + d, ns |-> 0]
  /\ UNCHANGED <<cfg, st, firstPoll, wakeAt, fx, lg, ct, adm, wnd, ngate, lastAct>>

\* end of a run: nobody may still be undecided beyond its timeout
End ==
  /\ G("C15", \A c \in Callers : st[c] = "sleeping" => now - firstPoll[c] <= cfg.T)
  /\ ev' = [e |-> "op", name |-> "end", t |-> now]
  /\ UNCHANGED <<cfg, now, st, firstPoll, wakeAt, fx, lg, ct, adm, wnd, ngate, lastAct>>

Next ==
  \/ \E c \in Callers : Create(c) \/ PollFirst15(c) \/ PollWake15(c) \/ Drop(c)
  \/ (now < MaxTime /\ Advance(1))
Spec == Init /\ [][Next]_vars

\* ---- design-level invariants (MC mode; the code's own windows are the C02 witness)
FixedWindowOK == cfg.win = "fixed" => fx.n <= cfg.L /\ fx.avail + fx.n = cfg.L
CounterBucketOK == cfg.win = "counter" => ct.cur <= cfg.L /\ ct.prev <= cfg.L
LogSpanOK == cfg.win = "log" => \A i \in 1..Len(adm) : (i + cfg.L <= Len(adm) => adm[i + cfg.L] - adm[i] >= cfg.P)
\* after two idle periods the limiter is back to full capacity
Spare ==
  IF cfg.win = "fixed" THEN (IF now - fx.ps >= cfg.P THEN cfg.L ELSE fx.avail)
  ELSE IF cfg.win = "log" THEN cfg.L - Len(SelectSeq(lg, LAMBDA t : now - t < cfg.P))
  ELSE (IF now - ct.bs >= 2 * cfg.P THEN cfg.L ELSE 0)
IdleThenBurst == (now - lastAct >= 2 * cfg.P) => Spare = cfg.L
Sleepers == {c \in Callers : st[c] = "sleeping"}
DecidedWithinTimeout == \A c \in Sleepers : now - firstPoll[c] <= cfg.T /\ wakeAt[c] - firstPoll[c] <= cfg.T
=============================================================================
