---------------------------- MODULE MC_Reconnect ----------------------------
EXTENDS Reconnect, Json
MCCfgSet == {cf \in [max : {0 - 1, 0, 1, 2}, pol : {"none", "fixed", "exp", "custom"}, b0 : {1, 2}, cap : {4}, retryOn : {0, 1}, pred : {"all", "noe2"}] :
              (cf.pol = "fixed" => cf.b0 = 2) /\ (cf.pol # "fixed" => cf.b0 = 1)}
MCOuts == {"ok", "e1", "e2"}
Bound == \A c \in Callers : attempt[c] <= 4
\* transition tour: every transition of the (small) model, printed with the level of its source state
TourDump == PrintT(<<"EDGE", TLCGet("level"), ToJson([f |-> view, t |-> view', cfg |-> cfg, ev |-> ev'])>>)
GenPrint == PrintT(<<"GEN", TLCGet("level"), ToJson([cfg |-> cfg, ev |-> ev])>>)
=============================================================================
