---------------------------- MODULE MC_RateLimiter ----------------------------
EXTENDS RateLimiter, Json
MCCfgSet == [win : {"fixed", "log", "counter"}, L : {1, 2}, P : {3}, T : {0, 2, 3, 7}]
MCCfgSetQ == [win : {"fixed", "log", "counter"}, L : {1, 2}, P : {3}, T : {0, 2, 4}]
MCEnforce == [C02 |-> TRUE, C15 |-> TRUE]
Inv == FixedWindowOK /\ CounterBucketOK /\ LogSpanOK /\ IdleThenBurst /\ DecidedWithinTimeout
\* transition tour: every transition of the (small) model, printed with the level of its source state
TourDump == PrintT(<<"EDGE", TLCGet("level"), ToJson([f |-> view, t |-> view', cfg |-> cfg, ev |-> ev'])>>)
GenPrint == PrintT(<<"GEN", TLCGet("level"), ToJson([cfg |-> cfg, ev |-> ev])>>)
=============================================================================
