CONSTANTS
  Callers = {1, 2, 3, 4}
  CfgSet <- MCCfgSet
  MaxTime = 6
  Outs <- MCOuts
  Keys <- MCKeys
  Extended = FALSE
INIT Init
NEXT Next
VIEW view
INVARIANT Inv
CHECK_DEADLOCK FALSE
