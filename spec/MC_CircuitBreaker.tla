---------------------------- MODULE MC_CircuitBreaker ----------------------------
EXTENDS CircuitBreaker, Json
\* sequential histories (C04): one caller id reused, configuration grid in Init
SeqCfgSet ==
  {cf \in [wt : {"count", "time"}, N : {2, 3}, min : {1, 2, 3, 4}, thr : {0, 2, 4}, perm : {1, 2},
           slowOn : {0, 1}, slowThr : {2}, slowRate : {2}, D : {2, 4}, wait : {2}, cls : {"default", "e2ok"}, fb : {0}] :
     /\ cf.min \in {1, cf.N, cf.N + 1}
     /\ (cf.wt = "count" => cf.D = 2)}
SeqCfgSetQ == {cf \in SeqCfgSet : cf.N = 2 /\ cf.thr # 0 /\ (cf.slowOn = 1 => cf.cls = "default")}
\* concurrent callers on clones (C03, C09 at design level)
ConcCfgSet ==
  [wt : {"count", "time"}, N : {2}, min : {2}, thr : {2}, perm : {1, 2}, slowOn : {0, 1}, slowThr : {2}, slowRate : {2},
   D : {4}, wait : {3}, cls : {"default"}, fb : {0, 1}]
ConcCfgSetT == {cf \in ConcCfgSet : cf.slowOn = 0}
ConcCfgSetQ == {cf \in ConcCfgSet : cf.slowOn = 0 /\ cf.wt = "count"}
MCEnforce == [C04 |-> TRUE, X |-> TRUE]
AllOps == {"force_open", "force_closed", "reset"}
Outs3 == {"ok", "e1", "e2"}
Outs4 == {"ok", "e1", "panic"}
Outs2 == {"ok", "e1"}
FOps == {"force_open"}
Inv == HalfBound /\ NoWedge /\ OpenHasEmptyHalfOpenCounters /\ WindowBounded /\ OpenShields /\ ClosedNeverFullOfFailures
Depth7 == TLCGet("level") <= 8
Depth6 == TLCGet("level") <= 7
Depth12 == TLCGet("level") <= 13
\* each manual override at most once per behaviour would need history; bound by depth instead
\* transition tour: every transition of the (small) model, printed with the level of its source state
TourDump == PrintT(<<"EDGE", TLCGet("level"), ToJson([f |-> view, t |-> view', cfg |-> cfg, ev |-> ev'])>>)
GenPrint == PrintT(<<"GEN", TLCGet("level"), ToJson([cfg |-> cfg, ev |-> ev])>>)
=============================================================================
