CONSTANTS
  Threads = {1, 2, 3}
  OpSet <- Ops
  CfgSet <- MCCfgSet
  AtomicDeposit = TRUE
INIT Init
NEXT Next
INVARIANT Inv
CHECK_DEADLOCK FALSE
