---------------------------- MODULE MC_Retry ----------------------------
EXTENDS Retry, Json
MCCfgSet == {cf \in [max : {0, 1, 2, 3}, perReq : {0, 1}, pred : {"all", "noe2"}, bo : {"fixed", "exp"}, b0 : {1, 2}, cap : {4}, budget : {0 - 1, 0, 1, 2}, bmax : {2},
                    btype : {"tb", "aimd"}, bmin : {1}, cost : {1, 2}, amount : {1}, fnum : {2}] :
              /\ (cf.btype = "tb" => cf.cost = 1) /\ (cf.btype = "aimd" => cf.budget = cf.bmax /\ cf.perReq = 0 /\ cf.pred = "all")
              /\ (cf.perReq = 1 => cf.max = 3) /\ (cf.bo = "fixed" => cf.b0 = 2) /\ (cf.bo = "exp" => cf.b0 = 1)}
MCCfgSetQ == {cf \in MCCfgSet : cf.perReq = 0 /\ (cf.pred = "noe2" => cf.budget = 0 - 1)}
MCOuts == {"ok", "e1", "e2"}
Keys1 == {1}
Keys4 == {1, 2, 4}
Inv == AttemptsBounded /\ BudgetNonNegative
\* transition tour: every transition of the (small) model, printed with the level of its source state
TourDump == PrintT(<<"EDGE", TLCGet("level"), ToJson([f |-> view, t |-> view', cfg |-> cfg, ev |-> ev'])>>)
GenPrint == PrintT(<<"GEN", TLCGet("level"), ToJson([cfg |-> cfg, ev |-> ev])>>)
=============================================================================
