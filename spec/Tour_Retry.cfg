CONSTANTS
  Callers = {1}
  CfgSet <- MCCfgSetQ
  MaxTime = 6
  Outs <- MCOuts
  Keys <- Keys1
INIT Init
NEXT Next
VIEW view
ACTION_CONSTRAINT TourDump
CHECK_DEADLOCK FALSE
