---------------------------- MODULE Live_Coalesce ----------------------------
(* Liveness of the coalescer's design (C11, "nobody waits for ever") under fairness, checked with
   SPECIFICATION and no state constraint: if every runnable future is eventually polled (weak
   fairness of the poll actions - what an executor gives) and every inner call eventually
   resolves or its caller is dropped (environment), then every waiter and every leader finishes. *)
EXTENDS Coalesce
LCfgSet == {[x |-> 0]}
LOuts == {"ok", "e1", "panic"}
LKeys == {1, 2}
\* the environment resolves every pending inner call with some outcome
EnvResolves(c) == \E o \in Outs : Complete(c, o)
Fairness == \A c \in Callers : /\ WF_vars(PollLeader(c))
                               /\ WF_vars(PollWaiter(c) /\ st'[c] = "done")
                               /\ WF_vars(EnvResolves(c))
LiveSpec == Init /\ [][Next]_vars /\ Fairness
NobodyWaitsForEver == \A c \in Callers : (st[c] \in {"waiting", "leading"}) ~> (st[c] = "done")
\* the key becomes usable again after its leader is gone
KeyFreed == \A k \in Keys : (leader[k] # 0) ~> (leader[k] = 0)
=============================================================================
