---------------------------- MODULE Live_CircuitBreaker ----------------------------
(* Liveness of the circuit breaker's design (C04 / C09, "a half-open breaker decides"): as long as callers keep
   arriving, every admitted trial call is eventually resolved by the environment and every runnable future is
   eventually polled, a half-open breaker eventually closes or re-opens, and an open breaker whose wait has elapsed
   eventually lets a trial through.  Cancellations, panics and manual overrides are left out of this model: each of
   them can legitimately postpone the decision for ever (a trial that is always cancelled reports nothing). *)
EXTENDS CircuitBreaker
LCfgSet == [wt : {"count"}, N : {1}, min : {1}, thr : {2}, perm : {1, 2}, slowOn : {0}, slowThr : {2}, slowRate : {2},
            D : {4}, wait : {1}, cls : {"default"}, fb : {0}]
LEnforce == [C04 |-> TRUE, X |-> FALSE]
LOuts == {"ok", "e1"}
NoOps == {}
EnvResolves(c) == \E o \in Outs : Complete(c, o)
LiveNext ==
  \/ \E c \in Callers : Create(c) \/ PollAdmission(c) \/ PollRecord(c)
  \/ \E c \in Callers, o \in Outs : Complete(c, o)
  \/ (now < MaxTime /\ \E d \in AdvSet : Advance(d))
Fairness == /\ \A c \in Callers : /\ WF_vars(Create(c)) /\ WF_vars(PollAdmission(c)) /\ WF_vars(PollRecord(c)) /\ WF_vars(EnvResolves(c))
            /\ WF_vars(now < MaxTime /\ \E d \in AdvSet : Advance(d))
LiveSpec == Init /\ [][LiveNext]_vars /\ Fairness
\* a half-open breaker does not stay half-open for ever - while enough callers are still to come for the trials it
\* needs (caller identities are used once in this model, so that the state space is finite)
Idle == {c \in Callers : st[c] = "idle"}
HalfOpenDecides == (state = "half" /\ hoAdm + Cardinality(Idle) >= cfg.perm) ~> (state # "half")
\* an open breaker whose wait has elapsed is probed by the next caller (that time passes at all is the environment's
\* business: callers arriving for ever within one instant never let the clock move)
OpenIsProbed == (state = "open" /\ now - changedAt >= cfg.wait /\ Idle # {}) ~> (state # "open")
=============================================================================
