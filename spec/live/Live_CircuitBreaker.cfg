CONSTANTS
  Callers = {1, 2, 3}
  CfgSet <- LCfgSet
  Enforce <- LEnforce
  MaxTime = 2
  Outs <- LOuts
  Reuse = FALSE
  Ops <- NoOps
  AdvSet = {1}
SPECIFICATION LiveSpec
PROPERTY HalfOpenDecides
PROPERTY OpenIsProbed
CHECK_DEADLOCK FALSE
