CONSTANTS
  Callers = {1, 2, 3}
  CfgSet <- LCfgSet
  MaxTime = 1
  Outs <- LOuts
  Keys <- LKeys
SPECIFICATION LiveSpec
PROPERTY NobodyWaitsForEver
PROPERTY KeyFreed
CHECK_DEADLOCK FALSE
