---------------------------- MODULE Live_Bulkhead ----------------------------
(* Liveness of the bulkhead's design (C07, "no capacity is lost, nobody starves while holders
   finish") under fairness: every runnable future is eventually polled, every inner call
   eventually resolves, and (for finite waits) time advances.  Then every caller that entered
   eventually leaves, and a freed permit is always handed on. *)
EXTENDS Bulkhead
LCfgSet == [max : {1, 2}, wait : {NONE, 0, 2}]
LEnforce == [C01 |-> TRUE, C07 |-> TRUE, X |-> TRUE]
LOuts == {"ok", "e1", "panic"}
EnvResolves(c) == \E o \in Outs : Complete(c, o)
Fairness == /\ \A c \in Callers : /\ WF_vars(MCPollAdmit(c)) /\ WF_vars(PollEnqueue(c)) /\ WF_vars(MCPollReject(c))
                                  /\ WF_vars(PollDone(c)) /\ WF_vars(EnvResolves(c))
LiveSpec == Init /\ [][Next]_vars /\ Fairness
Entered(c) == st[c] \in {"created", "waiting", "granted", "running"}
Left(c) == st[c] \in {"done", "rejected", "cancelled"}
\* with an unbounded wait nobody starves as long as holders finish (they do: EnvResolves, PollDone are fair)
NobodyStarves == \A c \in Callers : Entered(c) ~> Left(c)
\* all permits come back
PermitsReturn == []<>(Holding = {} => Free = cfg.max)
=============================================================================
