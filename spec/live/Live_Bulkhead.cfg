CONSTANTS
  Callers = {1, 2, 3}
  CfgSet <- LCfgSet
  Enforce <- LEnforce
  MaxTime = 3
  Outs <- LOuts
SPECIFICATION LiveSpec
PROPERTY NobodyStarves
CHECK_DEADLOCK FALSE
