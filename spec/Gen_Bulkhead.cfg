CONSTANTS
  Callers = {1, 2, 3, 4}
  CfgSet <- MCCfgSet
  Enforce <- MCEnforce
  MaxTime = 6
  Outs <- MCOuts
INIT Init
NEXT Next
INVARIANT GenPrint
CHECK_DEADLOCK FALSE
