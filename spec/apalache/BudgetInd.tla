---------------------------- MODULE BudgetInd ----------------------------
(* Token-bucket retry budget at the grain of atomic operations (try_withdraw = load / CAS loop,
   deposit = load / CAS loop), typed for Apalache.  IndInv is an inductive invariant for ANY
   initial balance, maximum, cost and deposit amount (three threads, each performing any number
   of operations): Init => IndInv and IndInv /\ Next => IndInv'.  It implies C08's Conservation
   and BalanceLeMax without bounds on the numbers. *)
EXTENDS Integers
CONSTANTS
  \* @type: Int;
  Initial,
  \* @type: Int;
  MaxTok,
  \* @type: Int;
  Cost,
  \* @type: Int;
  Amount
VARIABLES
  \* @type: Int;
  tokens,
  \* @type: Int -> Str;
  pc,
  \* @type: Int -> Int;
  cur,
  \* @type: Int;
  grants,
  \* @type: Int;
  deposits
Threads == {1, 2, 3}
ConstInit == Initial \in Nat /\ MaxTok \in Nat /\ Cost \in Nat /\ Amount \in Nat /\ Initial <= MaxTok /\ Cost >= 1 /\ Amount >= 1
Min2(a, b) == IF a < b THEN a ELSE b
Init == /\ tokens = Initial /\ pc = [t \in Threads |-> "idle"] /\ cur = [t \in Threads |-> 0] /\ grants = 0 /\ deposits = 0
StartW(t) == pc[t] = "idle" /\ pc' = [pc EXCEPT ![t] = "w_load"] /\ UNCHANGED <<tokens, cur, grants, deposits>>
StartD(t) == pc[t] = "idle" /\ pc' = [pc EXCEPT ![t] = "d_load"] /\ UNCHANGED <<tokens, cur, grants, deposits>>
WLoad(t) == /\ pc[t] = "w_load" /\ cur' = [cur EXCEPT ![t] = tokens]
            /\ pc' = [pc EXCEPT ![t] = IF tokens < Cost THEN "idle" ELSE "w_cas"]
            /\ UNCHANGED <<tokens, grants, deposits>>
WCas(t) == /\ pc[t] = "w_cas"
           /\ IF tokens = cur[t]
              THEN tokens' = cur[t] - Cost /\ grants' = grants + 1 /\ pc' = [pc EXCEPT ![t] = "idle"]
              ELSE pc' = [pc EXCEPT ![t] = "w_load"] /\ UNCHANGED <<tokens, grants>>
           /\ UNCHANGED <<cur, deposits>>
DLoad(t) == pc[t] = "d_load" /\ cur' = [cur EXCEPT ![t] = tokens] /\ pc' = [pc EXCEPT ![t] = "d_cas"] /\ UNCHANGED <<tokens, grants, deposits>>
DCas(t) == /\ pc[t] = "d_cas"
           /\ IF tokens = cur[t]
              THEN tokens' = Min2(cur[t] + Amount, MaxTok) /\ deposits' = deposits + 1 /\ pc' = [pc EXCEPT ![t] = "idle"]
              ELSE pc' = [pc EXCEPT ![t] = "d_load"] /\ UNCHANGED <<tokens, deposits>>
           /\ UNCHANGED <<cur, grants>>
Next == \E t \in Threads : StartW(t) \/ StartD(t) \/ WLoad(t) \/ WCas(t) \/ DLoad(t) \/ DCas(t)
TypeOK == /\ tokens \in Int /\ grants \in Nat /\ deposits \in Nat
          /\ pc \in [Threads -> {"idle", "w_load", "w_cas", "d_load", "d_cas"}]
          /\ cur \in [Threads -> Int]
Conservation == grants * Cost + tokens <= Initial + deposits * Amount
BalanceLeMax == tokens >= 0 /\ tokens <= MaxTok
IndInv == /\ TypeOK /\ Conservation /\ BalanceLeMax
          /\ \A t \in Threads : pc[t] = "w_cas" => cur[t] >= Cost
\* an arbitrary state satisfying the invariant (for the inductive step)
IndInit == /\ tokens \in Int /\ grants \in Nat /\ deposits \in Nat
           /\ pc \in [Threads -> {"idle", "w_load", "w_cas", "d_load", "d_cas"}]
           /\ cur \in [Threads -> Int]
           /\ IndInv
=============================================================================
