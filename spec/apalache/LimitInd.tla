---------------------------- MODULE LimitInd ----------------------------
(* AIMD / Vegas limit controllers at the grain of atomic loads and stores (LimitImpl.tla), typed for
   Apalache.  IndInv is an inductive invariant for ANY min <= max, any initial limit (clamped by the
   constructor), any additive increase >= 0 and any multiplicative decrease factor in [0, 1] (abstracted:
   the decreased value is any integer in 0..loaded value; Vegas' +1 / -1 / keep and halving are instances),
   three threads each performing any number of racy load-compute-store operations.  It implies C13's
   LimitInBounds without bounds on the numbers. *)
EXTENDS Integers
CONSTANTS
  \* @type: Int;
  MinL,
  \* @type: Int;
  MaxL,
  \* @type: Int;
  Initial,
  \* @type: Int;
  Inc
VARIABLES
  \* @type: Int;
  limit,
  \* @type: Int -> Str;
  pc,
  \* @type: Int -> Int;
  loc
Threads == {1, 2, 3}
ConstInit == MinL \in Nat /\ MaxL \in Nat /\ Initial \in Nat /\ Inc \in Nat /\ MinL <= MaxL
Min2(a, b) == IF a < b THEN a ELSE b
Max2(a, b) == IF a > b THEN a ELSE b
Init == limit = Max2(MinL, Min2(Initial, MaxL)) /\ pc = [t \in Threads |-> "idle"] /\ loc = [t \in Threads |-> 0]
LoadS(t) == pc[t] = "idle" /\ loc' = [loc EXCEPT ![t] = limit] /\ pc' = [pc EXCEPT ![t] = "storeS"] /\ UNCHANGED limit
LoadF(t) == pc[t] = "idle" /\ loc' = [loc EXCEPT ![t] = limit] /\ pc' = [pc EXCEPT ![t] = "storeF"] /\ UNCHANGED limit
\* record_success: min(loaded + increase, max)   (Vegas: +1, keep, or max(loaded - 1, min): see StoreF)
StoreS(t) == /\ pc[t] = "storeS" /\ limit' = Min2(loc[t] + Inc, MaxL)
             /\ pc' = [pc EXCEPT ![t] = "idle"] /\ UNCHANGED loc
\* record_failure / a slow response: max(d, min) for some 0 <= d <= loaded
StoreF(t) == /\ pc[t] = "storeF" /\ \E d \in 0..loc[t] : limit' = Max2(d, MinL)
             /\ pc' = [pc EXCEPT ![t] = "idle"] /\ UNCHANGED loc
\* reset(): the clamped initial value
ResetL == limit' = Max2(MinL, Min2(Initial, MaxL)) /\ UNCHANGED <<pc, loc>>
Next == ResetL \/ \E t \in Threads : LoadS(t) \/ LoadF(t) \/ StoreS(t) \/ StoreF(t)
TypeOK == limit \in Int /\ pc \in [Threads -> {"idle", "storeS", "storeF"}] /\ loc \in [Threads -> Int]
LimitInBounds == MinL <= limit /\ limit <= MaxL
IndInv == /\ TypeOK /\ LimitInBounds
          /\ \A t \in Threads : pc[t] # "idle" => (MinL <= loc[t] /\ loc[t] <= MaxL)
IndInit == /\ limit \in Int /\ pc \in [Threads -> {"idle", "storeS", "storeF"}] /\ loc \in [Threads -> Int] /\ IndInv
=============================================================================
