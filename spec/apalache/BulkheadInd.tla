---------------------------- MODULE BulkheadInd ----------------------------
(* The bulkhead's permit accounting (Bulkhead.tla: free slots = max - holders), typed for Apalache.  IndInv is an
   inductive invariant for ANY max_concurrent_calls >= 1 (four callers, each entering any number of times): the free
   permits plus the callers holding one always add up to max, so the calls inside the wrapped service never exceed it
   (C01) and an idle bulkhead has all its permits back (C07).  Cancellation at every point, rejection of waiters,
   grants to waiters in any order. *)
EXTENDS Integers, FiniteSets
CONSTANTS
  \* @type: Int;
  MaxC
VARIABLES
  \* @type: Int;
  permits,
  \* @type: Int -> Str;
  st
Callers == {1, 2, 3, 4}
ConstInit == MaxC \in Nat /\ MaxC >= 1
Holders == {c \in Callers : st[c] \in {"granted", "running"}}
Init == permits = MaxC /\ st = [c \in Callers |-> "idle"]
\* first poll: a free permit is taken at once, otherwise the caller queues
Enter(c) == /\ st[c] = "idle"
            /\ IF permits > 0 THEN (permits' = permits - 1 /\ st' = [st EXCEPT ![c] = "granted"])
               ELSE (permits' = permits /\ st' = [st EXCEPT ![c] = "waiting"])
\* a freed permit is handed to some waiter
Grant(c) == st[c] = "waiting" /\ permits > 0 /\ permits' = permits - 1 /\ st' = [st EXCEPT ![c] = "granted"]
\* the poll that starts the inner call
Start(c) == st[c] = "granted" /\ st' = [st EXCEPT ![c] = "running"] /\ UNCHANGED permits
\* the inner call ends (ok, error or panic), or the holder is cancelled: the permit comes back
Release(c) == st[c] \in {"granted", "running"} /\ permits' = permits + 1 /\ st' = [st EXCEPT ![c] = "idle"]
\* a waiter is rejected at its deadline or cancelled: nothing to give back
Leave(c) == st[c] = "waiting" /\ st' = [st EXCEPT ![c] = "idle"] /\ UNCHANGED permits
Next == \E c \in Callers : Enter(c) \/ Grant(c) \/ Start(c) \/ Release(c) \/ Leave(c)
TypeOK == permits \in Int /\ st \in [Callers -> {"idle", "waiting", "granted", "running"}]
Conservation == permits + Cardinality(Holders) = MaxC
InFlightLeMax == Cardinality({c \in Callers : st[c] = "running"}) <= MaxC
IdleHasAll == (Holders = {}) => permits = MaxC
IndInv == TypeOK /\ permits >= 0 /\ Conservation /\ InFlightLeMax /\ IdleHasAll
IndInit == permits \in Int /\ st \in [Callers -> {"idle", "waiting", "granted", "running"}] /\ IndInv
=============================================================================
