---------------------------- MODULE Trace_Stacks ----------------------------
EXTENDS Stacks, Json, IOUtils
VARIABLE l
Rec == ndJsonDeserialize(IOEnv.TRACE)
E == Rec[l]
Is(k) == l <= Len(Rec) /\ E.e = k /\ l' = l + 1
TInit == InitWith([layer |-> "none", inner |-> "strict", retries |-> 0]) /\ ev = [e |-> "init"] /\ l = 1
TReset == Is("reset") /\ Reset(E.cfg)
I == IF "insts" \in DOMAIN E THEN E.insts ELSE <<>>
TOp == Is("op") /\ (IF E.name = "ready" THEN OpReady(E.res, I) ELSE IF E.name = "end" THEN End ELSE OpOther(I))
TCreate == Is("create") /\ E.res = "created" /\ Create(E.c, E.key, I, E.ns, E.si, E.sc, E.sk)
TPoll == Is("poll") /\ (IF E.res = "pending" THEN PollPending(E.c, I, E.ns, E.si, E.sc, E.sk)
                        ELSE IF E.res = "ok" THEN PollResult(E.c, "ok", "", E.val, E.rq, I, E.ns, E.si, E.sc, E.sk)
                        ELSE IF E.res = "err" THEN PollResult(E.c, "err", E.kind, E.val, 0, I, E.ns, E.si, E.sc, E.sk)
                        ELSE FALSE)                      \* a panic has no explanation
TComplete == Is("complete") /\ Complete(E.c, E.out, I, E.ns, E.si, E.sc, E.sk)
TOther == (Is("advance") \/ Is("reap") \/ Is("drop")) /\ Other(I, E.ns, E.si, E.sc, E.sk)
TNext == TReset \/ TOp \/ TCreate \/ TPoll \/ TComplete \/ TOther
Accepted ==
  LET d == TLCGet("stats").diameter IN
  IF d - 1 = Len(Rec) THEN TRUE ELSE Print(<<"REJECTED", d, ToJson(Rec[d])>>, FALSE)
=============================================================================
