CONSTANTS
  Callers = {1, 2, 3, 4}
  Outs <- MCOuts
INIT Init
NEXT Next

INVARIANT GenPrint
CHECK_DEADLOCK FALSE
