---------------------------- MODULE Stacks ----------------------------
(* C20, transparency and Tower readiness, for every middleware in a non-triggering
   configuration and for stacks of them (cfg.layer names the stack, cfg.retries = 1 when the
   stack may call the inner service again after a failure).
   The inner service is a set of instances: Clone(a) -> b creates b not ready, PollReady(a)
   may make a ready, Call(a) requires a ready and clears it.  The environment drives the outer
   service to readiness, calls it, resolves the inner calls.  Nothing here knows how a layer
   works: only what reaches the inner service and what comes back is constrained. *)
EXTENDS Integers, Sequences, FiniteSets, TLC
CONSTANTS Callers, Insts, CfgSet
VARIABLES cfg, rdy, key, gates, failed, st, rerr, ev
vars == <<cfg, rdy, key, gates, failed, st, rerr, ev>>
InitWith(cf) ==
  /\ cfg = cf /\ rdy = [i \in Insts |-> FALSE] /\ key = [c \in Callers |-> 0]
  /\ gates = [c \in Callers |-> {}] /\ failed = [c \in Callers |-> FALSE] /\ st = [c \in Callers |-> "idle"]
  /\ rerr = [c \in Callers |-> FALSE]
Init == (\E cf \in CfgSet : InitWith(cf)) /\ ev = [e |-> "init"]
Reset(cf) ==
  /\ cfg' = cf /\ rdy' = [i \in Insts |-> FALSE] /\ key' = [c \in Callers |-> 0]
  /\ gates' = [c \in Callers |-> {}] /\ failed' = [c \in Callers |-> FALSE] /\ st' = [c \in Callers |-> "idle"]
  /\ rerr' = [c \in Callers |-> FALSE]
  /\ ev' = [e |-> "reset"]
\* ---- the readiness protocol of the inner service, folded over what one step did to it
RECURSIVE Fold(_, _, _)
\* returns <<ready-function, every call went to a ready instance>>
Fold(r, ok, s) ==
  IF s = <<>> THEN <<r, ok>>
  ELSE LET x == Head(s) IN
       IF x.k = "clone" THEN Fold([r EXCEPT ![x.b] = FALSE], ok, Tail(s))
       ELSE IF x.k = "ready" THEN Fold(IF x.res = "ready" THEN [r EXCEPT ![x.a] = TRUE] ELSE r, ok, Tail(s))
       ELSE IF x.k = "call" THEN Fold([r EXCEPT ![x.a] = FALSE], ok /\ r[x.a], Tail(s))
       ELSE Fold(r, ok, Tail(s))
\* what the outer poll_ready may answer given what the inner instances answered during it
OuterReadyOK(res, s) ==
  LET rs == {s[i].res : i \in {j \in 1..Len(s) : s[j].k = "ready"}} IN
  IF "pending" \in rs THEN res = "pending"                    \* Pending stays Pending
  ELSE IF \E x \in rs : x \notin {"ready", "pending"} THEN res = "err"     \* a readiness error surfaces as one
  ELSE IF rs # {} THEN res = "ready"
  ELSE TRUE
\* every step: the calls it made went to ready instances; inner starts belong to the right request, unchanged
Step(insts, ns, si, sc, sk) ==
  LET f == Fold(rdy, TRUE, insts) IN
  /\ f[2]                                                        \* Tower readiness contract
  /\ rdy' = f[1]
  /\ (ns > 0 => sc \in Callers /\ st[sc] # "idle" /\ sk = key[sc])      \* the request reaches the inner service unchanged
  /\ gates' = (IF ns > 0 THEN [gates EXCEPT ![sc] = @ \cup (si..(si + ns - 1))] ELSE gates)
\* retries = 0: exactly once; 1: again only after an inner failure; 2: hedged attempts at any time
\* did an inner instance answer poll_ready with an error during this step?
ReadyErr(s) == \E i \in 1..Len(s) : s[i].k = "ready" /\ s[i].res \notin {"ready", "pending"}
OnceOK(c, g) == IF cfg.retries = 2 \/ (cfg.retries = 1 /\ failed[c]) THEN (Cardinality(g) >= 1 /\ Cardinality(g) <= 3) ELSE Cardinality(g) = 1
OpReady(res, insts) ==
  /\ OuterReadyOK(res, insts) /\ Step(insts, 0, 0, 0, 0)
  /\ ev' = [e |-> "op", name |-> "ready"] /\ UNCHANGED <<cfg, key, failed, st, rerr>>
OpOther(insts) ==
  /\ Step(insts, 0, 0, 0, 0) /\ ev' = [e |-> "op"] /\ UNCHANGED <<cfg, key, failed, st, rerr>>
Create(c, k, insts, ns, si, sc, sk) ==
  /\ st[c] = "idle" /\ st' = [st EXCEPT ![c] = "live"] /\ key' = [key EXCEPT ![c] = k]
  /\ LET f == Fold(rdy, TRUE, insts) IN
     /\ f[2] /\ rdy' = f[1]
     /\ (ns > 0 => sc = c /\ sk = k)
     /\ gates' = (IF ns > 0 THEN [gates EXCEPT ![c] = si..(si + ns - 1)] ELSE gates)
  /\ rerr' = [rerr EXCEPT ![c] = ReadyErr(insts)]
  /\ ev' = [e |-> "create", c |-> c] /\ UNCHANGED <<cfg, failed>>
PollPending(c, insts, ns, si, sc, sk) ==
  /\ st[c] = "live" /\ Step(insts, ns, si, sc, sk)
  /\ rerr' = [rerr EXCEPT ![c] = @ \/ ReadyErr(insts)]
  /\ ev' = [e |-> "poll", c |-> c, res |-> "pending"] /\ UNCHANGED <<cfg, key, failed, st>>
\* the call's response or error comes back unchanged, wrapped only in pass-through variants
PollResult(c, res, kind, val, rq, insts, ns, si, sc, sk) ==
  /\ st[c] = "live" /\ Step(insts, ns, si, sc, sk) /\ st' = [st EXCEPT ![c] = "done"]
  /\ OnceOK(c, gates'[c])
  /\ rerr' = rerr
  \* cfg.noretry = 1: the layer is configured so that this request's failure is final (one attempt, or a predicate that
  \* refuses it): its own error comes back unchanged, whatever the wrapped service's readiness says afterwards
  /\ (IF cfg.retries = 1 /\ (rerr[c] \/ ReadyErr(insts)) /\ ~("noretry" \in DOMAIN cfg /\ cfg.noretry = 1)
      THEN \* the inner service failed readiness before a retry: it surfaces as that readiness error
           (res = "err" /\ kind = "inner7")
      ELSE IF res = "ok" THEN (rq = c /\ val \in gates'[c])
      ELSE /\ res = "err" /\ failed[c]
           /\ \/ (kind = "inner1" /\ val \in gates'[c])
              \/ (cfg.retries = 2 /\ kind = "allfailed"))          \* hedging: every started attempt failed (the layer's own condition)
  /\ ev' = [e |-> "poll", c |-> c, res |-> res] /\ UNCHANGED <<cfg, key, failed>>
Complete(c, out, insts, ns, si, sc, sk) ==
  /\ Step(insts, ns, si, sc, sk)
  /\ failed' = (IF out = "ok" THEN failed ELSE [failed EXCEPT ![c] = TRUE])
  /\ ev' = [e |-> "complete", c |-> c] /\ UNCHANGED <<cfg, key, st, rerr>>
Other(insts, ns, si, sc, sk) ==      \* advance, drop of a finished future: spawned tasks may act
  /\ Step(insts, ns, si, sc, sk) /\ ev' = [e |-> "other"] /\ UNCHANGED <<cfg, key, failed, st, rerr>>
End ==
  /\ \A c \in Callers : st[c] = "done" => OnceOK(c, gates[c])
  /\ ev' = [e |-> "end"] /\ UNCHANGED <<cfg, rdy, key, gates, failed, st, rerr>>
=============================================================================
