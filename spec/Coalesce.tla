---------------------------- MODULE Coalesce ----------------------------
(* tower-resilience-coalesce (C11).  Service::call elects the leader of a key (its inner call
   starts there) or joins the in-flight leader as a waiter.  A waiter busy-polls; it gets a
   clone of its leader's result, or LeaderCancelled once the leader is gone. *)
EXTENDS Integers, Sequences, FiniteSets, TLC
CONSTANTS Callers, CfgSet, MaxTime, Outs, Keys
VARIABLES cfg, now, st, key, leader, follows, lres, gout, gid, ngate, ev
vars == <<cfg, now, st, key, leader, follows, lres, gout, gid, ngate, ev>>
view == <<cfg, now, st, key, leader, follows, lres, gout, gid, ngate>>
\* leader[k]: caller leading key k, or 0.  follows[c]: the leader a waiter joined.
\* lres[c]: what leader c produced: "none" (in flight) / "ok" / "e1" / "gone" (dropped or panicked)
InitWith(cf) ==
  /\ cfg = cf /\ now = 0 /\ st = [c \in Callers |-> "idle"] /\ key = [c \in Callers |-> 1]
  /\ leader = [k \in Keys |-> 0] /\ follows = [c \in Callers |-> 0] /\ lres = [c \in Callers |-> "none"]
  /\ gout = [c \in Callers |-> "none"] /\ gid = [c \in Callers |-> 0] /\ ngate = 0
Init == (\E cf \in CfgSet : InitWith(cf)) /\ ev = [e |-> "init"]
Reset(cf) ==
  /\ cfg' = cf /\ now' = 0 /\ st' = [c \in Callers |-> "idle"] /\ key' = [c \in Callers |-> 1]
  /\ leader' = [k \in Keys |-> 0] /\ follows' = [c \in Callers |-> 0] /\ lres' = [c \in Callers |-> "none"]
  /\ gout' = [c \in Callers |-> "none"] /\ gid' = [c \in Callers |-> 0] /\ ngate' = 0 /\ ev' = [e |-> "reset"]
Create(c, k) ==
  /\ st[c] = "idle" /\ key' = [key EXCEPT ![c] = k]
  /\ IF leader[k] = 0
     THEN \* at most one inner call per key in flight: this one
          /\ st' = [st EXCEPT ![c] = "leading"] /\ leader' = [leader EXCEPT ![k] = c]
          /\ gout' = [gout EXCEPT ![c] = "pending"] /\ gid' = [gid EXCEPT ![c] = ngate + 1] /\ ngate' = ngate + 1
          /\ ev' = [e |-> "create", c |-> c, key |-> k, t |-> now, res |-> "created", ns |-> 1, si |-> ngate + 1]
          /\ UNCHANGED follows
     ELSE /\ st' = [st EXCEPT ![c] = "waiting"] /\ follows' = [follows EXCEPT ![c] = leader[k]]
          /\ ev' = [e |-> "create", c |-> c, key |-> k, t |-> now, res |-> "created", ns |-> 0]
          /\ UNCHANGED <<leader, gout, gid, ngate>>
  /\ UNCHANGED <<cfg, now, lres>>
\* The wrapped service's `call` itself panics (injected by the environment, "cp"): the would-be leader's
\* Service::call unwinds, no future comes into being - a leading request that panicked. The key must be usable again
\* at once (it must not stay taken by a leader that does not exist); a request that joins a live leader makes no
\* inner call, so nothing panics and it waits as usual.
CreateP(c, k) ==
  /\ st[c] = "idle" /\ key' = [key EXCEPT ![c] = k]
  /\ IF leader[k] = 0
     THEN /\ st' = [st EXCEPT ![c] = "done"] /\ lres' = [lres EXCEPT ![c] = "gone"]
          /\ ev' = [e |-> "create", c |-> c, key |-> k, t |-> now, res |-> "panic", ns |-> 0, cp |-> 1]
          /\ UNCHANGED <<leader, follows, gout, gid, ngate>>
     ELSE /\ st' = [st EXCEPT ![c] = "waiting"] /\ follows' = [follows EXCEPT ![c] = leader[k]]
          /\ ev' = [e |-> "create", c |-> c, key |-> k, t |-> now, res |-> "created", ns |-> 0, cp |-> 1]
          /\ UNCHANGED <<leader, gout, gid, ngate, lres>>
  /\ UNCHANGED <<cfg, now>>
\* the property is silent on whether the elected leader's inner call starts in Service::call or at its first
\* poll (the election itself is what Service::call decides): "elected" = leader of its key, inner call not started yet
CreateDeferred(c, k) ==
  /\ st[c] = "idle" /\ leader[k] = 0 /\ key' = [key EXCEPT ![c] = k]
  /\ st' = [st EXCEPT ![c] = "elected"] /\ leader' = [leader EXCEPT ![k] = c]
  /\ ev' = [e |-> "create", c |-> c, key |-> k, t |-> now, res |-> "created", ns |-> 0]
  /\ UNCHANGED <<cfg, now, follows, lres, gout, gid, ngate>>
PollLeaderStart(c) ==
  /\ st[c] = "elected" /\ st' = [st EXCEPT ![c] = "leading"]
  /\ gout' = [gout EXCEPT ![c] = "pending"] /\ gid' = [gid EXCEPT ![c] = ngate + 1] /\ ngate' = ngate + 1
  /\ ev' = [e |-> "poll", c |-> c, t |-> now, res |-> "pending", ns |-> 1, si |-> ngate + 1, nd |-> 0]
  /\ UNCHANGED <<cfg, now, key, leader, follows, lres>>
Complete(c, o) ==
  /\ st[c] = "leading" /\ gout[c] = "pending" /\ gout' = [gout EXCEPT ![c] = o]
  /\ ev' = [e |-> "complete", c |-> c, i |-> gid[c], out |-> o, t |-> now]
  /\ UNCHANGED <<cfg, now, st, key, leader, follows, lres, gid, ngate>>
Free(c) == [leader EXCEPT ![key[c]] = IF @ = c THEN 0 ELSE @]
PollLeader(c) ==
  /\ st[c] = "leading" /\ gout[c] \in {"ok", "e1", "panic"}
  /\ st' = [st EXCEPT ![c] = "done"] /\ leader' = Free(c)                     \* the key is usable again at once
  /\ lres' = [lres EXCEPT ![c] = IF gout[c] = "panic" THEN "gone" ELSE gout[c]]
  /\ ev' = (IF gout[c] = "ok" THEN [res |-> "ok", val |-> gid[c], rq |-> c]
            ELSE IF gout[c] = "panic" THEN [res |-> "panic"]
            ELSE [res |-> "err", kind |-> "inner1", val |-> gid[c]])
           @@ [e |-> "poll", c |-> c, t |-> now, ns |-> 0, nd |-> 1]
  /\ UNCHANGED <<cfg, now, key, follows, gout, gid, ngate>>
PollWaiter(c) ==
  /\ st[c] = "waiting"
  /\ LET L == follows[c] IN
     IF lres[L] = "none"
     THEN /\ ev' = [e |-> "poll", c |-> c, t |-> now, res |-> "pending", ns |-> 0, nd |-> 0] /\ UNCHANGED st
     ELSE /\ st' = [st EXCEPT ![c] = "done"]
          /\ ev' = (IF lres[L] = "ok" THEN [res |-> "ok", val |-> gid[L], rq |-> L]            \* a clone of its leader's result
                    ELSE IF lres[L] = "e1" THEN [res |-> "err", kind |-> "inner1", val |-> gid[L]]
                    ELSE [res |-> "err", kind |-> "cancelled"])
                   @@ [e |-> "poll", c |-> c, t |-> now, ns |-> 0, nd |-> 0]
  /\ UNCHANGED <<cfg, now, key, leader, follows, lres, gout, gid, ngate>>
PollStutter(c) ==
  /\ st[c] = "leading" /\ gout[c] = "pending"
  /\ ev' = [e |-> "poll", c |-> c, t |-> now, res |-> "pending", ns |-> 0, nd |-> 0]
  /\ UNCHANGED <<cfg, now, st, key, leader, follows, lres, gout, gid, ngate>>
Drop(c) ==
  /\ st[c] \in {"leading", "waiting", "elected"} /\ st' = [st EXCEPT ![c] = "done"]
  /\ IF st[c] \in {"leading", "elected"} THEN (leader' = Free(c) /\ lres' = [lres EXCEPT ![c] = "gone"]) ELSE UNCHANGED <<leader, lres>>
  /\ ev' = [e |-> "drop", c |-> c, t |-> now, ns |-> 0, ndr |-> (IF st[c] = "leading" THEN 1 ELSE 0)]
  /\ UNCHANGED <<cfg, now, key, follows, gout, gid, ngate>>
\* nobody waits for ever: before time passes every waiter whose leader is no longer in flight has resolved
Quiescent == \A c \in Callers : /\ ~(st[c] = "waiting" /\ lres[follows[c]] # "none")
                                /\ ~(st[c] = "leading" /\ gout[c] \notin {"none", "pending"})
                                /\ st[c] # "elected"
Advance(d) ==
  /\ d > 0 /\ Quiescent /\ now' = now + d /\ ev' = [e |-> "advance", d |-> d, t |-> now + d]
  /\ UNCHANGED <<cfg, st, key, leader, follows, lres, gout, gid, ngate>>
PollAny(c) == PollLeader(c) \/ PollWaiter(c) \/ PollStutter(c) \/ PollLeaderStart(c)
Next ==
  \/ \E c \in Callers : (\E k \in Keys : Create(c, k) \/ CreateP(c, k)) \/ PollLeader(c) \/ PollWaiter(c) \/ Drop(c)
  \/ \E c \in Callers, o \in Outs : Complete(c, o)
  \/ (now < MaxTime /\ Advance(1))
Spec == Init /\ [][Next]_vars
\* C11 at design level
OneInnerPerKey == \A k \in Keys : Cardinality({c \in Callers : st[c] \in {"leading", "elected"} /\ key[c] = k}) <= 1
\* a key is taken only by a leader that exists (else its waiters would wait for ever)
KeyTakenOnlyByLiveLeader == \A k \in Keys : leader[k] # 0 => (st[leader[k]] \in {"leading", "elected"} /\ key[leader[k]] = k)
WaitersFollowLiveOrResolved == \A c \in Callers : st[c] = "waiting" => follows[c] # 0 /\ key[follows[c]] = key[c]
=============================================================================
