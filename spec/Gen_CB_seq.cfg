CONSTANTS
  Callers = {1}
  CfgSet <- SeqCfgSet
  Enforce <- MCEnforce
  MaxTime = 100
  Outs <- Outs3
  Reuse = TRUE
  Ops <- AllOps
  AdvSet = {1, 2}
INIT Init
NEXT Next

INVARIANT GenPrint

CHECK_DEADLOCK FALSE
