---------------------------- MODULE Trace_Health ----------------------------
EXTENDS Health, Json, IOUtils
VARIABLE l
Rec == ndJsonDeserialize(IOEnv.TRACE)
E == Rec[l]
Is(k) == l <= Len(Rec) /\ E.e = k /\ l' = l + 1
TInit == InitWith([n |-> 1, ft |-> 1, sth |-> 1, strat |-> "first"]) /\ ev = [e |-> "init"] /\ l = 1
TReset == Is("reset") /\ Reset(E.cfg)
\* JSON arrays are sequences 1..n
TRound == Is("round") /\ Round([r \in R |-> E.res[r]])
          /\ \A r \in R : /\ E.status[r] = ev'.status[r] /\ E.cf[r] = ev'.cf[r] /\ E.cs[r] = ev'.cs[r] /\ E.checks[r] = 1
TSel == Is("sel") /\ Select(E.kind, E.got)
TNext == TReset \/ TRound \/ TSel
Accepted ==
  LET d == TLCGet("stats").diameter IN
  IF d - 1 = Len(Rec) THEN TRUE ELSE Print(<<"REJECTED", d, ToJson(Rec[d])>>, FALSE)
=============================================================================
