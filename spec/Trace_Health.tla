---------------------------- MODULE Trace_Health ----------------------------
EXTENDS Health, Json, IOUtils
VARIABLE l
Rec == ndJsonDeserialize(IOEnv.TRACE)
E == Rec[l]
Is(k) == l <= Len(Rec) /\ E.e = k /\ l' = l + 1
TInit == InitWith([n |-> 1, ft |-> 1, sth |-> 1, strat |-> "first"]) /\ ev = [e |-> "init"] /\ l = 1
TReset == Is("reset") /\ Reset(E.cfg)
\* JSON arrays are sequences 1..n
\* "l": a check that answers healthy late but within the configured check timeout (cfg.tmo above the latency) is a healthy check
TRound == Is("round") /\ Round([r \in R |-> IF E.res[r] = "l" THEN "h" ELSE E.res[r]])
          /\ \A r \in R : /\ E.status[r] = ev'.status[r] /\ E.cf[r] = ev'.cf[r] /\ E.cs[r] = ev'.cs[r] /\ E.checks[r] = 1
          /\ (Trig => (E.tu = ev'.tu /\ E.th = ev'.th /\ E.td = ev'.td /\ E.brk = brk'))
TMid == Is("mid") /\ Mid([r \in R |-> IF E.res[r] = "l" THEN "h" ELSE E.res[r]], {r \in R : E.fin[r] = 1}, [r \in R |-> E.status[r]])
TSel == Is("sel") /\ Select(E.kind, E.got)
\* a configuration built separately reads back exactly as set (interval 10 ms, no initial delay; timeout cfg.tmo)
TCfgView == Is("cfgview") /\ E.tmo = cfg.tmo /\ E.intv = 10 /\ E.delay = 0 /\ E.ft = cfg.ft /\ E.sth = cfg.sth /\ UNCHANGED vars
TNext == TReset \/ TRound \/ TSel \/ TCfgView \/ TMid
Accepted ==
  LET d == TLCGet("stats").diameter IN
  IF d - 1 = Len(Rec) THEN TRUE ELSE Print(<<"REJECTED", d, ToJson(Rec[d])>>, FALSE)
=============================================================================
