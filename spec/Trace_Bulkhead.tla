---------------------------- MODULE Trace_Bulkhead ----------------------------
(* Trace validation: every line of the ndjson file named by env TRACE must be explained
   by the action of Bulkhead.tla it names, with the logged observation equal to the
   action's ev'.  Unlogged choices (who got a freed permit) are made by TLC. *)
EXTENDS Bulkhead, Json, IOUtils
VARIABLE l
ProfC01 == [C01 |-> TRUE, C07 |-> FALSE, X |-> FALSE]
ProfC07 == [C01 |-> FALSE, C07 |-> TRUE, X |-> FALSE]
ProfAll == [C01 |-> TRUE, C07 |-> TRUE, X |-> TRUE]
ProfBoth == [C01 |-> TRUE, C07 |-> TRUE, X |-> FALSE]
Rec == ndJsonDeserialize(IOEnv.TRACE)
E == Rec[l]
tvars == <<cfg, now, st, deadline, gid, gout, infl, ngate, lis, ev, l>>

\* every field the action puts into ev' must equal the logged field
Matches(x, r) == \A k \in DOMAIN x : k \in DOMAIN r /\ r[k] = x[k]
Is(k) == l <= Len(Rec) /\ E.e = k /\ l' = l + 1
LisOK == G("X", E.lis.perm = lis'.perm /\ E.lis.rej = lis'.rej /\ E.lis.fin = lis'.fin /\ E.lis.fail = lis'.fail)

TInit == (\E cf \in {[max |-> 1, wait |-> NONE]} : InitWith(cf)) /\ ev = [e |-> "init"] /\ l = 1
TReset == Is("reset") /\ Reset(E.cfg)
TCreate == Is("create") /\ Create(E.c) /\ Matches(ev', E)
TPoll == Is("poll") /\ PollAny(E.c) /\ Matches(ev', E) /\ StepOK /\ LisOK
TComplete == Is("complete") /\ Complete(E.c, E.out) /\ Matches(ev', E)
TDrop == Is("drop") /\ Drop(E.c) /\ Matches(ev', E) /\ StepOK
TAdvance == Is("advance") /\ Advance(E.d) /\ Matches(ev', E)
TNext == TReset \/ TCreate \/ TPoll \/ TComplete \/ TDrop \/ TAdvance

Accepted ==
  LET d == TLCGet("stats").diameter IN
  IF d - 1 = Len(Rec) THEN TRUE
  ELSE Print(<<"REJECTED", d, ToJson(Rec[d])>>, FALSE)
=============================================================================
