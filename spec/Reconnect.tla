---------------------------- MODULE Reconnect ----------------------------
(* tower-resilience-reconnect (C16).  Service::call starts the first inner call at once;
   a reconnectable error is followed by the policy's delay and another call.
   cfg = [max (-1 = unlimited), pol ("none"|"fixed"|"exp"|"rand"|"custom"), b0, cap, retryOn (0|1),
          pred ("all" | "noe2": code 2 is not a connection failure)]
   base: whether the policy is indexed from 0 or from 1 for the first retry -- the property
   does not say; chosen once per run by TLC and then kept. *)
EXTENDS Integers, Sequences, FiniteSets, TLC
CONSTANTS Callers, CfgSet, MaxTime, Outs
VARIABLES cfg, now, base, st, attempt, until, lastGid, gout, gid, ngate, conn, ev
vars == <<cfg, now, base, st, attempt, until, lastGid, gout, gid, ngate, conn, ev>>
view == <<cfg, now, base, st, attempt, until, lastGid, gout, gid, ngate, conn>>
Min2(a, b) == IF a < b THEN a ELSE b
RECURSIVE Pow2(_)
Pow2(k) == IF k = 0 THEN 1 ELSE 2 * Pow2(k - 1)
Exp(k) == Min2(cfg.b0 * Pow2(IF k > 20 THEN 20 ELSE k), cfg.cap)
\* the set of delays the policy allows before retry number n (n = 1, 2, ...)
Delays(n) ==
  LET k == n - 1 + base IN
  IF cfg.pol = "fixed" THEN {cfg.b0}
  ELSE IF cfg.pol = "exp" THEN {Exp(k)}
  ELSE IF cfg.pol = "rand" THEN {d \in 0..(2 * cfg.cap) : 2 * d >= Exp(k) - 2 /\ 2 * d <= 3 * Exp(k) + 2}    \* factor 1/2
  ELSE {3 + k}                                                                                     \* custom function
Reconnectable(o) == o = "e1" \/ (o = "e2" /\ cfg.pred = "all")
Active == {c \in Callers : st[c] \in {"calling", "sleeping", "created"}}
InitWith(cf) ==
  /\ cfg = cf /\ now = 0 /\ base \in {0, 1} /\ st = [c \in Callers |-> "idle"] /\ attempt = [c \in Callers |-> 0]
  /\ until = [c \in Callers |-> 0] /\ lastGid = [c \in Callers |-> 0] /\ gout = [c \in Callers |-> "none"]
  /\ gid = [c \in Callers |-> 0] /\ ngate = 0 /\ conn = "any"
Init == (\E cf \in CfgSet : InitWith(cf)) /\ ev = [e |-> "init"]
Reset(cf) ==
  /\ cfg' = cf /\ now' = 0 /\ base' \in {0, 1} /\ st' = [c \in Callers |-> "idle"] /\ attempt' = [c \in Callers |-> 0]
  /\ until' = [c \in Callers |-> 0] /\ lastGid' = [c \in Callers |-> 0] /\ gout' = [c \in Callers |-> "none"]
  /\ gid' = [c \in Callers |-> 0] /\ ngate' = 0 /\ conn' = "any" /\ ev' = [e |-> "reset"]
\* published connection state: connected after a success; not connected while a reconnectable
\* failure of the only active request is being handled; otherwise unconstrained ("any")
ConnEv(cn) == IF cn = "any" THEN <<>> ELSE [conn |-> cn]
StartCall(c) ==
  /\ st' = [st EXCEPT ![c] = "calling"] /\ gout' = [gout EXCEPT ![c] = "pending"]
  /\ gid' = [gid EXCEPT ![c] = ngate + 1] /\ ngate' = ngate + 1
Create(c) ==
  /\ st[c] = "idle" /\ StartCall(c)
  /\ ev' = [e |-> "create", c |-> c, t |-> now, res |-> "created", ns |-> 1, si |-> ngate + 1]
  /\ UNCHANGED <<cfg, now, base, attempt, until, lastGid, conn>>
\* the property is silent on whether the first call starts in Service::call or at the first poll
CreateDeferred(c) ==
  /\ st[c] = "idle" /\ st' = [st EXCEPT ![c] = "created"]
  /\ ev' = [e |-> "create", c |-> c, t |-> now, res |-> "created", ns |-> 0]
  /\ UNCHANGED <<cfg, now, base, attempt, until, lastGid, conn, gout, gid, ngate>>
PollStart(c) ==
  /\ st[c] = "created" /\ StartCall(c)
  /\ ev' = [e |-> "poll", c |-> c, t |-> now, res |-> "pending", ns |-> 1, si |-> ngate + 1]
  /\ UNCHANGED <<cfg, now, base, attempt, until, lastGid, conn>>
Complete(c, o) ==
  /\ st[c] = "calling" /\ gout[c] = "pending" /\ gout' = [gout EXCEPT ![c] = o]
  /\ ev' = [e |-> "complete", c |-> c, i |-> gid[c], out |-> o, t |-> now]
  /\ UNCHANGED <<cfg, now, base, st, attempt, until, lastGid, gid, ngate, conn>>
Fin(c, r) == st' = [st EXCEPT ![c] = "done"] /\ ev' = r @@ [e |-> "poll", c |-> c, t |-> now, ns |-> 0]
PollOutcome(c) ==
  /\ st[c] = "calling" /\ gout[c] \in {"ok", "e1", "e2"}
  /\ IF gout[c] = "ok"
     THEN Fin(c, [res |-> "ok", val |-> gid[c], rq |-> c, conn |-> "connected"]) /\ conn' = "connected" /\ UNCHANGED <<attempt, until, lastGid>>
     ELSE IF ~Reconnectable(gout[c])
     THEN Fin(c, [res |-> "err", kind |-> "service", val |-> gid[c]]) /\ UNCHANGED <<attempt, until, lastGid, conn>>   \* other errors come back unchanged
     ELSE IF cfg.max >= 0 /\ attempt[c] + 1 > cfg.max
     THEN Fin(c, [res |-> "err", kind |-> "maxattempts:" \o ToString(attempt[c] + 1), val |-> gid[c]])
          \* the failure that ends the request was a connection failure too: a lone request does not leave "connected" behind
          /\ attempt' = [attempt EXCEPT ![c] = @ + 1] /\ conn' = (IF Active = {c} THEN "notconnected" ELSE "any") /\ UNCHANGED <<until, lastGid>>
     ELSE IF cfg.pol = "none"
     THEN Fin(c, [res |-> "err", kind |-> "connfailed", val |-> gid[c]]) /\ attempt' = [attempt EXCEPT ![c] = @ + 1]
          /\ conn' = (IF Active = {c} THEN "notconnected" ELSE "any") /\ UNCHANGED <<until, lastGid>>
     ELSE \E d \in Delays(attempt[c] + 1) :
          /\ st' = [st EXCEPT ![c] = "sleeping"] /\ attempt' = [attempt EXCEPT ![c] = @ + 1]
          /\ until' = [until EXCEPT ![c] = now + d] /\ lastGid' = [lastGid EXCEPT ![c] = gid[c]]
          /\ conn' = (IF Active = {c} THEN "notconnected" ELSE "any")
          /\ ev' = [e |-> "poll", c |-> c, t |-> now, res |-> "pending", ns |-> 0, nd |-> 1]
  /\ UNCHANGED <<cfg, now, base, gout, gid, ngate>>
\* the poll at the end of the delay (never earlier)
PollWake(c) ==
  /\ st[c] = "sleeping" /\ now = until[c]
  /\ IF cfg.retryOn = 1
     THEN StartCall(c) /\ ev' = [e |-> "poll", c |-> c, t |-> now, res |-> "pending", ns |-> 1, si |-> ngate + 1] /\ UNCHANGED conn
     ELSE Fin(c, [res |-> "err", kind |-> "noretry", val |-> lastGid[c]]) /\ conn' = "any" /\ UNCHANGED <<gout, gid, ngate>>
  /\ UNCHANGED <<cfg, now, base, attempt, until, lastGid>>
PollStutter(c) ==
  /\ \/ (st[c] = "calling" /\ gout[c] = "pending") \/ (st[c] = "sleeping" /\ now < until[c])
  /\ ev' = [e |-> "poll", c |-> c, t |-> now, res |-> "pending", ns |-> 0, nd |-> 0]
  /\ UNCHANGED <<cfg, now, base, st, attempt, until, lastGid, gout, gid, ngate, conn>>
Drop(c) ==
  /\ st[c] \in {"calling", "sleeping", "created"} /\ st' = [st EXCEPT ![c] = "done"] /\ conn' = "any"
  /\ ev' = [e |-> "drop", c |-> c, t |-> now, ns |-> 0]
  /\ UNCHANGED <<cfg, now, base, attempt, until, lastGid, gout, gid, ngate>>
Quiescent == \A c \in Callers : ~(st[c] = "calling" /\ gout[c] \notin {"none", "pending"}) /\ ~(st[c] = "sleeping" /\ now >= until[c]) /\ st[c] # "created"
Advance(d) ==
  /\ d > 0 /\ Quiescent /\ \A c \in Callers : st[c] = "sleeping" => now + d <= until[c]
  /\ now' = now + d /\ ev' = [e |-> "advance", d |-> d, t |-> now + d]
  /\ UNCHANGED <<cfg, base, st, attempt, until, lastGid, gout, gid, ngate, conn>>
\* the observed connection state must agree with conn' whenever conn' is definite
ConnOK(seen) == conn' = "any" \/ (conn' = "connected" /\ seen = "connected") \/ (conn' = "notconnected" /\ seen # "connected")
PollAny(c) == PollOutcome(c) \/ PollWake(c) \/ PollStutter(c) \/ PollStart(c)
Next ==
  \/ \E c \in Callers : Create(c) \/ PollOutcome(c) \/ PollWake(c)
  \/ \E c \in Callers, o \in Outs : Complete(c, o)
  \/ (now < MaxTime /\ Advance(1))
Spec == Init /\ [][Next]_vars
CallsBounded == \A c \in Callers : cfg.max >= 0 => attempt[c] <= cfg.max + 1
=============================================================================
