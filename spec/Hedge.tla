---------------------------- MODULE Hedge ----------------------------
(* tower-resilience-hedge (C12).  cfg = [max, mode ("fixed" | "par" | "dyn"), d].
   Attempts are spawned tasks; their results reach the hedged call through a queue in
   completion order.  One poll of the hedged call = take the queued results in order
   (first success wins, failures are counted), then start the next hedge if its delay is over.
   Attempts of a call that has resolved (or was dropped) keep running in the background. *)
EXTENDS Integers, Sequences, FiniteSets, TLC
CONSTANTS Callers, CfgSet, MaxTime, Outs
VARIABLES cfg, now, st, started, nextAt, failed, q, att, ngate, ev
vars == <<cfg, now, st, started, nextAt, failed, q, att, ngate, ev>>
view == <<cfg, now, st, started, nextAt, failed, q, att, ngate>>
\* att: sequence over gate ids of records [c, k, s] with s in "pending" / "ok" / "e1" (resolved and delivered)
\* "dyn0": a delay function that is zero from the second hedge on - those hedges start together with the first one
Delay(k) == IF cfg.mode = "fixed" THEN cfg.d ELSE IF cfg.mode = "dyn" THEN (IF k = 1 THEN 2 ELSE 1)
            ELSE IF cfg.mode = "dyn0" THEN (IF k = 1 THEN 2 ELSE 0) ELSE 0
Par == cfg.mode = "par" \/ cfg.max = 1
\* cfg.blk = 1: the wrapped service's further clones never become ready (back-pressure): hedge attempts are
\* launched but never reach the wrapped service, and never fail either; the primary alone decides
Blk == "blk" \in DOMAIN cfg /\ cfg.blk = 1
InitWith(cf) ==
  /\ cfg = cf /\ now = 0 /\ st = [c \in Callers |-> "idle"] /\ started = [c \in Callers |-> 0]
  /\ nextAt = [c \in Callers |-> 0] /\ failed = [c \in Callers |-> 0] /\ q = [c \in Callers |-> <<>>]
  /\ att = <<>> /\ ngate = 0
Init == (\E cf \in CfgSet : InitWith(cf)) /\ ev = [e |-> "init"]
Reset(cf) ==
  /\ cfg' = cf /\ now' = 0 /\ st' = [c \in Callers |-> "idle"] /\ started' = [c \in Callers |-> 0]
  /\ nextAt' = [c \in Callers |-> 0] /\ failed' = [c \in Callers |-> 0] /\ q' = [c \in Callers |-> <<>>]
  /\ att' = <<>> /\ ngate' = 0 /\ ev' = [e |-> "reset"]
Create(c) ==
  /\ st[c] = "idle" /\ st' = [st EXCEPT ![c] = "created"]
  /\ ev' = [e |-> "create", c |-> c, t |-> now, res |-> "created", ns |-> 0]
  /\ UNCHANGED <<cfg, now, started, nextAt, failed, q, att, ngate>>
Ls == IF "ls" \in DOMAIN cfg THEN cfg.ls ELSE 0
NewAtts(c, k0, n) == [i \in 1..n |-> [c |-> c, k |-> k0 + i - 1, s |-> "pending"]]
\* first poll: the primary starts (in parallel mode: all attempts)
FirstPoll(c) ==
  /\ st[c] = "created"
  /\ LET n == IF Par THEN cfg.max ELSE 1
         ng == IF Blk THEN 1 ELSE n IN
     /\ att' = att \o NewAtts(c, 0, ng) /\ ngate' = ngate + ng
     /\ started' = [started EXCEPT ![c] = n]
     /\ ev' = [e |-> "poll", c |-> c, t |-> now + Ls, res |-> "pending", ns |-> ng, si |-> ngate + 1, sc |-> c]
  /\ st' = [st EXCEPT ![c] = "running"]
  \* cfg.ls > 0: a listener of the primary-started event takes ls ms (synchronously) before the primary is started; the
  \* first hedge's delay counts from the primary's start, not from the entry into the call
  /\ now' = now + Ls
  /\ nextAt' = [nextAt EXCEPT ![c] = now + Ls + Delay(1)]
  /\ UNCHANGED <<cfg, failed, q>>
\* environment resolves attempt i; its task delivers the result at once (also after the call has resolved)
Complete(i, o) ==
  /\ i \in 1..Len(att) /\ att[i].s = "pending"
  /\ att' = [att EXCEPT ![i].s = o]
  /\ q' = (IF st[att[i].c] = "running" THEN [q EXCEPT ![att[i].c] = Append(@, i)] ELSE q)
  /\ ev' = [e |-> "complete", c |-> att[i].c, i |-> i, out |-> o, t |-> now, nd |-> 1]
  /\ UNCHANGED <<cfg, now, st, started, nextAt, failed, ngate>>
\* results in the queue, in order: index of the first success, number of failures before it
FirstOk(s) == IF \E j \in 1..Len(s) : att[s[j]].s = "ok" THEN CHOOSE j \in 1..Len(s) : att[s[j]].s = "ok" /\ \A m \in 1..(j - 1) : att[s[m]].s # "ok" ELSE 0
Poll(c) ==
  /\ st[c] = "running"
  /\ LET j == FirstOk(q[c])
         nf == failed[c] + (IF j = 0 THEN Len(q[c]) ELSE j - 1)
     IN IF j > 0
        THEN \* the first successful attempt's response, as soon as it is there
             /\ st' = [st EXCEPT ![c] = "done"] /\ q' = [q EXCEPT ![c] = <<>>]
             /\ ev' = [e |-> "poll", c |-> c, t |-> now, res |-> "ok", val |-> q[c][j], rq |-> c, ns |-> 0]
             /\ UNCHANGED <<started, nextAt, failed, att, ngate>>
        ELSE IF nf >= cfg.max
        THEN \* every attempt that can be started has been started and has failed
             /\ st' = [st EXCEPT ![c] = "done"] /\ q' = [q EXCEPT ![c] = <<>>]
             /\ ev' = [e |-> "poll", c |-> c, t |-> now, res |-> "err", kind |-> "allfailed", ns |-> 0]
             /\ UNCHANGED <<started, nextAt, failed, att, ngate>>
        ELSE IF ~Par /\ started[c] < cfg.max /\ now >= nextAt[c]
        THEN \* the delay since the previous start is over: next hedge (and every further one whose own delay is zero)
             LET n == IF cfg.mode = "dyn0" THEN cfg.max - started[c] ELSE 1 IN
             /\ IF Blk THEN UNCHANGED <<att, ngate>> ELSE (att' = att \o NewAtts(c, started[c], n) /\ ngate' = ngate + n)
             /\ started' = [started EXCEPT ![c] = @ + n] /\ nextAt' = [nextAt EXCEPT ![c] = now + Delay(started[c] + n)]
             /\ failed' = [failed EXCEPT ![c] = nf] /\ q' = [q EXCEPT ![c] = <<>>]
             /\ ev' = (IF Blk THEN [e |-> "poll", c |-> c, t |-> now, res |-> "pending", ns |-> 0]
                       ELSE [e |-> "poll", c |-> c, t |-> now, res |-> "pending", ns |-> n, si |-> ngate + 1, sc |-> c])
             /\ UNCHANGED st
        ELSE /\ failed' = [failed EXCEPT ![c] = nf] /\ q' = [q EXCEPT ![c] = <<>>]
             /\ ev' = [e |-> "poll", c |-> c, t |-> now, res |-> "pending", ns |-> 0]
             /\ UNCHANGED <<st, started, nextAt, att, ngate>>
  /\ UNCHANGED <<cfg, now>>
Drop(c) ==
  /\ st[c] \in {"created", "running"} /\ st' = [st EXCEPT ![c] = "done"] /\ q' = [q EXCEPT ![c] = <<>>]
  /\ ev' = [e |-> "drop", c |-> c, t |-> now, ns |-> 0, ndr |-> 0]      \* spawned attempts are not cancelled
  /\ UNCHANGED <<cfg, now, started, nextAt, failed, att, ngate>>
Quiescent == \A c \in Callers : /\ st[c] # "created" /\ ~(st[c] = "running" /\ q[c] # <<>>)
                                /\ ~(st[c] = "running" /\ ~Par /\ started[c] < cfg.max /\ now >= nextAt[c])
Lazy == "lazy" \in DOMAIN cfg /\ cfg.lazy = 1        \* runs in which the executor may poll the hedged call late
Advance(d) ==
  /\ d > 0
  /\ Lazy \/ (Quiescent /\ \A c \in Callers : (st[c] = "running" /\ ~Par /\ started[c] < cfg.max) => now + d <= nextAt[c])
  /\ now' = now + d /\ ev' = [e |-> "advance", d |-> d, t |-> now + d, ns |-> 0]
  /\ UNCHANGED <<cfg, st, started, nextAt, failed, q, att, ngate>>
PollAny(c) == FirstPoll(c) \/ Poll(c)
Next ==
  \/ \E c \in Callers : Create(c) \/ FirstPoll(c) \/ Poll(c)
  \/ \E i \in 1..Len(att), o \in Outs : Complete(i, o)
  \/ (now < MaxTime /\ Advance(1))
Spec == Init /\ [][Next]_vars
\* C12 at design level
AttemptsLeMax == \A c \in Callers : started[c] <= cfg.max /\ Cardinality({i \in 1..Len(att) : att[i].c = c}) <= cfg.max
FailOnlyWhenAllFailed ==
  (ev.e = "poll" /\ "kind" \in DOMAIN ev /\ ev.kind = "allfailed") =>
     LET mine == {i \in 1..Len(att) : att[i].c = ev.c} IN Cardinality(mine) = cfg.max /\ \A i \in mine : att[i].s = "e1"
=============================================================================
