---------------------------- MODULE MC_TimeLimiter ----------------------------
EXTENDS TimeLimiter, Json
MCCfgSet == [T : {0, 2, 4}, perReq : {0, 1}, cancel : {0, 1}, ord : {0}, lazy : {0}]
TourCfgSet == [T : {0, 2}, perReq : {0, 1}, cancel : {0, 1}, ord : {0}, lazy : {0}]
MCOuts == {"ok", "e1"}
MCKeys == {1, 3}
\* transition tour: every transition of the (small) model, printed with the level of its source state
TourDump == PrintT(<<"EDGE", TLCGet("level"), ToJson([f |-> view, t |-> view', cfg |-> cfg, ev |-> ev'])>>)
GenPrint == PrintT(<<"GEN", TLCGet("level"), ToJson([cfg |-> cfg, ev |-> ev])>>)
=============================================================================
