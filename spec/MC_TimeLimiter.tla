---------------------------- MODULE MC_TimeLimiter ----------------------------
EXTENDS TimeLimiter, Json
MCCfgSet == [T : {0, 2, 4}, perReq : {0, 1}, cancel : {0, 1}, ord : {0}, lazy : {0}]
MCOuts == {"ok", "e1"}
MCKeys == {1, 3}
GenPrint == PrintT(<<"GEN", TLCGet("level"), ToJson([cfg |-> cfg, ev |-> ev])>>)
=============================================================================
