CONSTANTS
  Callers = {1, 2}
  CfgSet <- TourCfgSet
  MaxTime = 4
  Outs <- MCOuts
  Keys <- MCKeys
INIT Init
NEXT Next
VIEW view
ACTION_CONSTRAINT TourDump
CHECK_DEADLOCK FALSE
