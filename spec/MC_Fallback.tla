---------------------------- MODULE MC_Fallback ----------------------------
EXTENDS Fallback, Json
MCCfgSet == [strat : {"value", "valuefn", "fromerr", "fromreq", "service", "exception"}, pred : {0, 1}, bk : {"ok", "err"}]
MCOuts == {"ok", "e1", "e2"}
Inv == SuccessUntouched /\ BackupOnlyWhenNeeded
\* transition tour: every transition of the (small) model, printed with the level of its source state
TourDump == PrintT(<<"EDGE", TLCGet("level"), ToJson([f |-> view, t |-> view', cfg |-> cfg, ev |-> ev'])>>)
GenPrint == PrintT(<<"GEN", TLCGet("level"), ToJson([cfg |-> cfg, ev |-> ev])>>)
=============================================================================
