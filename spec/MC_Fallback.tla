---------------------------- MODULE MC_Fallback ----------------------------
EXTENDS Fallback, Json
MCCfgSet == [strat : {"value", "valuefn", "fromerr", "fromreq", "service", "exception"}, pred : {0, 1}, bk : {"ok", "err"}]
MCOuts == {"ok", "e1", "e2"}
Inv == SuccessUntouched /\ BackupOnlyWhenNeeded
GenPrint == PrintT(<<"GEN", TLCGet("level"), ToJson([cfg |-> cfg, ev |-> ev])>>)
=============================================================================
