#!/bin/bash
# tools/par_seeds.sh <k> <kind: seeded|seeded_benign> <names...>: worker k applies each change to its own repo copy and runs the
# checks named in its meta.json from its own copy of /verif
k=$1; kind=$2; shift 2
d=/tmp/pw$k
cd $d/verif
for n in "$@"; do
  s=/verif/$kind/$n
  if [ $kind = seeded ]; then
    props=$(python3 -c "import json;m=json.load(open('$s/meta.json'));print(' '.join(dict.fromkeys([m['property']]+m.get('caught_by',[]))))")
  else
    props=$(python3 -c "import json;print(' '.join(json.load(open('$s/meta.json'))['properties']))")
  fi
  if ! git -C $d/repo apply $s/patch.diff 2>/dev/null; then echo "$kind $n patch-does-not-apply"; continue; fi
  line="$kind $n"
  for p in $props; do
    out=$(VERIF_FIRST=${VERIF_FIRST:-1} ./check $p --tier ${TIER:-quick} 2>&1); rc=$?
    line="$line $p=$rc($(echo "$out" | grep -c '^VIOLATION'))"
    if [ $kind = seeded_benign ] && [ $rc -ne 0 ]; then echo "$out" | grep -E "first unexplained|TOOL-ERROR" | head -2 | cut -c1-700; fi
    if [ $rc -eq 2 ]; then echo "$out" | grep -E "TOOL-ERROR" | head -2 | cut -c1-400; fi
  done
  git -C $d/repo checkout -q -- .
  echo "$line"
done
