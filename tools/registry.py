"""Which component spec / harness adapter / enforcement profile decides which property."""


def _flip_poll(ev):
    # flip an observation: a pending poll that started the inner call loses the start
    if ev.get('e') == 'poll' and ev.get('ns') == 1:
        ev = dict(ev)
        ev['ns'] = 0
        ev['starts'] = []
        ev['si'] = 0
        return ev
    return None


COMPONENTS = {
    'bulkhead': {
        'spec_files': ['Bulkhead.tla', 'MC_Bulkhead.tla', 'Trace_Bulkhead.tla'],
        'mc': {'quick': [{'cfg': 'MC_Bulkhead_q.cfg', 'module': 'MC_Bulkhead'}],
               'thorough': [{'cfg': 'MC_Bulkhead.cfg', 'module': 'MC_Bulkhead'}]},
        'gen': {'cfg': 'Gen_Bulkhead.cfg', 'module': 'MC_Bulkhead', 'num': {'quick': 400, 'thorough': 5000}, 'depth': 40},
        'trace_module': 'Trace_Bulkhead', 'trace_cfg_tmpl': 'Trace_Bulkhead.cfg.tmpl',
        'harness': 'bulkhead',
        'random': {'quick': [{'runs': 1500}], 'thorough': [{'runs': 20000}, {'runs': 5000, 'size': 'quick'}]},
        'corrupt': _flip_poll,
    },
}

PROPS = {
    'C01': {'comp': 'bulkhead', 'profile': 'ProfC01', 'drift_profile': 'ProfAll'},
    'C07': {'comp': 'bulkhead', 'profile': 'ProfC07', 'drift_profile': 'ProfAll'},
}
