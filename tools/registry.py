"""Which component spec / harness adapter / enforcement profile decides which property."""


def _bulkhead_corrupt(evs, profile):
    out = [dict(e) for e in evs]
    if profile == 'ProfC07':
        # a caller that was admitted at its first poll is shown as queued instead
        for e in out:
            if e.get('e') == 'poll' and e.get('ns') == 1:
                e.update({'ns': 0, 'starts': [], 'si': 0, 'sc': 0})
                return out
        return None
    # C01: one more inner call in flight than was observed: an inner completion is hidden
    seen = 0
    for e in out:
        if e.get('e') == 'poll' and e.get('nd') == 1:
            e.update({'nd': 0, 'dones': []})
            seen = 1
            break
    if not seen:
        return None
    # ... and the run goes on to fill the bulkhead: only convincing if later admissions exist
    later = [e for e in out if e.get('e') == 'poll' and e.get('ns') == 1]
    return out if len(later) > out[0]['cfg']['max'] + 1 else None


def _rl_corrupt(evs, profile):
    out = [dict(e) for e in evs]
    cfg = out[0]['cfg']
    if profile == 'ProfC02':
        # L+1 phantom admissions at the instant of a real one
        for i, e in enumerate(out):
            if e.get('e') == 'poll' and e.get('ns') == 1:
                extra = []
                for k in range(cfg['L'] + 1):
                    c = 24 - k
                    if any(x.get('c') == c for x in out):
                        return None
                    extra.append({'e': 'create', 'c': c, 't': e['t'], 'res': 'created', 'ns': 0})
                    extra.append(dict(e, c=c, rq=c))
                return out[:i + 1] + extra + out[i + 1:]
        return None
    # C15: a rejected call is shown as having reached the inner service
    for e in out:
        if e.get('e') == 'poll' and e.get('res') == 'err':
            e['ns'] = 1
            return out
    return None


def _cb_corrupt(evs, profile):
    out = [dict(e) for e in evs]
    if profile == 'ProfC03':
        # a call rejected by the open breaker is shown as having reached the inner service
        for e in out:
            if e.get('e') == 'poll' and e.get('kind') == 'open' and e.get('sync') == 'open':
                e['ns'] = 1
                return out
        return None
    if profile == 'ProfC09':
        # a caller rejected while half-open is shown as admitted
        for e in out:
            if e.get('e') == 'poll' and e.get('sync') == 'half' and e.get('ns') == 0 and e.get('res') in ('err', 'ok') and e.get('kind', 'open') == 'open' and 'nd' in e and e['nd'] == 0:
                e['ns'] = 1
                return out
        return None
    # C04: the lock-free view disagrees once
    for e in out[1:]:
        if e.get('sync') == 'open':
            e['sync'] = 'closed'
            return out
    return None


def _budget_corrupt(evs, profile):
    out = [dict(e) for e in evs]
    # the balance observed once everything has returned is off by one
    if out[-1].get('e') == 'ret' and out[-1].get('bal', 0) >= 1:
        out[-1]['bal'] -= 1
        return out
    return None


def _limit_corrupt(evs, profile):
    out = [dict(e) for e in evs]
    if len(out) > 2:
        out[2]['limit'] = out[2]['hi'] + 1
        return out
    return None


def _adaptive_corrupt(evs, profile):
    out = [dict(e) for e in evs]
    for e in out[1:]:
        if e.get('e') == 'drop' and 'inf' in e:
            e['inf'] += 1
            return out
    return None


def _retry_corrupt(evs, profile):
    out = [dict(e) for e in evs]
    # one more attempt than was made: a sleeping request's wake-up poll is duplicated
    for i, e in enumerate(out):
        if e.get('e') == 'poll' and e.get('res') == 'err' and e.get('nd') == 1:
            e2 = dict(e)
            e2.update({'res': 'pending'})
            e2.pop('kind', None)
            e2.pop('val', None)
            out[i] = e2
            return out[:i + 1]
    return None


def _backoff_corrupt(evs, profile):
    out = [dict(e) for e in evs]
    # a delay above the cap / off the schedule
    for e in out[3:]:
        if e.get('e') == 'delay' and not e.get('far') and out[0]['cfg'].get('f2') == 0:
            e['d'] = e['d'] + 7
            return out
    return None


def _reconnect_corrupt(evs, profile):
    out = [dict(e) for e in evs]
    # one more inner call than was made: a finished request is shown as having retried once more
    for i, e in enumerate(out):
        if e.get('e') == 'poll' and e.get('res') == 'err' and str(e.get('kind', '')).startswith('maxattempts'):
            e2 = {k: v for k, v in e.items() if k not in ('kind', 'val')}
            e2.update({'res': 'pending', 'nd': 1})
            return out[:i] + [e2]
    return None


def _tl_corrupt(evs, profile):
    out = [dict(e) for e in evs]
    # a timeout is reported one tick late
    for i, e in enumerate(out):
        if e.get('e') == 'poll' and e.get('kind') == 'timeout' and i > 0 and out[i - 1].get('e') == 'advance':
            out[i - 1]['d'] += 1
            out[i - 1]['t'] += 1
            for x in out[i:]:
                if 't' in x:
                    x['t'] += 1
            return out
    return None


def _hedge_corrupt(evs, profile):
    out = [dict(e) for e in evs]
    # all-attempts-failed although one attempt is shown as never having failed
    for i, e in enumerate(out):
        if e.get('e') == 'poll' and e.get('kind') == 'allfailed':
            for j in range(i - 1, 0, -1):
                if out[j].get('e') == 'complete' and out[j].get('c') == e.get('c'):
                    return out[:j] + out[j + 1:]
    return None


def _cache_corrupt(evs, profile):
    out = [dict(e) for e in evs]
    # a hit returns a response that was never stored for that key
    for e in out:
        if e.get('e') == 'poll' and e.get('res') == 'ok' and e.get('nd') == 0 and e.get('ns') == 0:
            e['val'] = e['val'] + 1000
            return out
    return None


def _coalesce_corrupt(evs, profile):
    out = [dict(e) for e in evs]
    # a waiter is shown as having started an inner call of its own
    for e in out:
        if e.get('e') == 'create' and e.get('ns') == 0:
            e['ns'] = 1
            return out
    return None


def _health_corrupt(evs, profile):
    out = [dict(e) for e in evs]
    # a resource is published unhealthy one failed check too early
    for e in out:
        if e.get('e') == 'round':
            st = list(e['status'])
            for i, x in enumerate(st):
                if x != 'unhealthy' and e['cf'][i] < out[0]['cfg']['ft']:
                    st[i] = 'unhealthy'
                    e['status'] = st
                    return out
    return None


def _chaos_corrupt(evs, profile):
    out = [dict(e) for e in evs]
    # instance B decides differently from instance A for one request
    for e in out:
        if e.get('e') == 'req' and e.get('inst') == 'B':
            e['d'] = e['d'] + 1
            return out
    return None


def _fallback_corrupt(evs, profile):
    out = [dict(e) for e in evs]
    # a successful inner response is shown as replaced by the fallback value
    for e in out:
        if e.get('e') == 'poll' and e.get('res') == 'ok' and e.get('val', 9999) < 7000:
            e['val'] = 7000
            e['rq'] = 0
            return out
    return None


def _stacks_corrupt(evs, profile):
    out = [dict(e) for e in evs]
    # an inner call on an instance whose readiness was never observed
    for e in out:
        if e.get('e') in ('create', 'poll') and e.get('insts'):
            ins = [dict(x) for x in e['insts']]
            for x in ins:
                if x.get('k') == 'call':
                    x['a'] = 39
                    e['insts'] = ins
                    return out
    return None


def _listeners_corrupt(evs, profile):
    out = [dict(e) for e in evs]
    for e in out:
        if e.get('e') == 'lrun' and e.get('mask') == 5:
            c = list(e['counts'])
            c[1] -= 1
            e['counts'] = c
            return out
    return None


def _executor_corrupt(evs, profile):
    out = [dict(e) for e in evs]
    for e in out:
        if e.get('e') == 'poll' and e.get('res') == 'ok':
            e['val'] = e['val'] + 1
            return out
    return None


COMPONENTS = {
    'bulkhead': {
        'spec_files': ['Bulkhead.tla', 'MC_Bulkhead.tla', 'Trace_Bulkhead.tla'],
        'mc': {'quick': [{'cfg': 'MC_Bulkhead_q.cfg', 'module': 'MC_Bulkhead'}],
               'thorough': [{'cfg': 'MC_Bulkhead.cfg', 'module': 'MC_Bulkhead'}]},
        'gen': {'cfg': 'Gen_Bulkhead.cfg', 'module': 'MC_Bulkhead', 'num': {'quick': 400, 'thorough': 5000}, 'depth': 40},
        'trace_module': 'Trace_Bulkhead', 'trace_cfg_tmpl': 'Trace_Bulkhead.cfg.tmpl',
        'tour': {'cfg': 'Tour_Bulkhead.cfg', 'module': 'MC_Bulkhead', 'n': {'quick': 1200, 'thorough': 25000}},
        'harness': 'bulkhead',
        'apalache': {'module': 'apalache/BulkheadInd.tla', 'cinit': 'ConstInit', 'init': 'Init', 'indinit': 'IndInit', 'inv': 'IndInv'},
        'random': {'quick': [{'runs': 1500}], 'thorough': [{'runs': 20000}, {'runs': 5000, 'size': 'quick'}]},
        'corrupt': _bulkhead_corrupt,
    },
    'ratelimiter': {
        'spec_files': ['RateLimiter.tla', 'MC_RateLimiter.tla', 'Trace_RateLimiter.tla'],
        'mc': {'quick': [{'cfg': 'MC_RateLimiter_q.cfg', 'module': 'MC_RateLimiter'}],
               'thorough': [{'cfg': 'MC_RateLimiter_t.cfg', 'module': 'MC_RateLimiter'}]},
        'gen': {'cfg': 'Gen_RateLimiter.cfg', 'module': 'MC_RateLimiter', 'num': {'quick': 400, 'thorough': 5000}, 'depth': 40},
        'trace_module': 'Trace_RateLimiter', 'trace_cfg_tmpl': 'Trace_RateLimiter.cfg.tmpl',
        'tour': {'cfg': 'Tour_RateLimiter.cfg', 'module': 'MC_RateLimiter', 'n': {'quick': 1200, 'thorough': 25000}},
        'harness': 'ratelimiter',
        'random': {'quick': [{'runs': 1500}], 'thorough': [{'runs': 20000}, {'runs': 5000, 'size': 'quick'}]},
        'corrupt': _rl_corrupt,
    },
    'circuitbreaker': {
        'spec_files': ['CircuitBreaker.tla', 'MC_CircuitBreaker.tla', 'Trace_CircuitBreaker.tla'],
        'mc': {'quick': [{'cfg': 'MC_CB_seq_q.cfg', 'module': 'MC_CircuitBreaker'}, {'cfg': 'MC_CB_conc_q.cfg', 'module': 'MC_CircuitBreaker'}],
               'thorough': [{'cfg': 'MC_CB_seq.cfg', 'module': 'MC_CircuitBreaker', 'timeout': 3000}, {'cfg': 'MC_CB_conc_t.cfg', 'module': 'MC_CircuitBreaker', 'timeout': 3000}]},
        'gen': {'cfg': 'Gen_CB_conc.cfg', 'module': 'MC_CircuitBreaker', 'num': {'quick': 400, 'thorough': 5000}, 'depth': 45},
        'trace_module': 'Trace_CircuitBreaker', 'trace_cfg_tmpl': 'Trace_CircuitBreaker.cfg.tmpl',
        'tour': {'cfg': 'Tour_CB.cfg', 'module': 'MC_CircuitBreaker', 'n': {'quick': 1200, 'thorough': 25000}, 'args': ['--variant', 'conc']},
        'harness': 'circuitbreaker',
        'random': {'quick': [{'runs': 1500, 'args': ['--variant', 'conc']}], 'thorough': [{'runs': 20000, 'args': ['--variant', 'conc']}]},
        'corrupt': _cb_corrupt,
    },
    'budget': {
        'spec_files': ['BudgetImpl.tla', 'MC_BudgetImpl.tla', 'Budget.tla'],
        'mc': {'quick': [{'cfg': 'MC_BudgetImpl.cfg', 'module': 'MC_BudgetImpl'}], 'thorough': [{'cfg': 'MC_BudgetImpl.cfg', 'module': 'MC_BudgetImpl'}]},
        'trace_module': 'Budget', 'trace_cfg_tmpl': 'Trace_Budget.cfg.tmpl',
        'apalache': {'module': 'apalache/BudgetInd.tla', 'cinit': 'ConstInit', 'init': 'Init', 'indinit': 'IndInit', 'inv': 'IndInv'},
        'harness': 'budget',
        'random': {'quick': [{'runs': 0}], 'thorough': [{'runs': 0}]},
        'corrupt': _budget_corrupt,
    },
    'limit': {
        'spec_files': ['LimitImpl.tla', 'MC_LimitImpl.tla', 'Limit.tla'],
        'mc': {'quick': [{'cfg': 'MC_LimitImpl.cfg', 'module': 'MC_LimitImpl'}], 'thorough': [{'cfg': 'MC_LimitImpl.cfg', 'module': 'MC_LimitImpl'}]},
        'trace_module': 'Limit', 'trace_cfg_tmpl': 'Trace_Limit.cfg.tmpl',
        'apalache': {'module': 'apalache/LimitInd.tla', 'cinit': 'ConstInit', 'init': 'Init', 'indinit': 'IndInit', 'inv': 'IndInv'},
        'harness': 'limit',
        'random': {'quick': [{'runs': 0}], 'thorough': [{'runs': 0}]},
        'corrupt': _limit_corrupt,
    },
    'adaptive': {
        'spec_files': ['Adaptive.tla', 'MC_Adaptive.tla', 'Trace_Adaptive.tla'],
        'mc': {'quick': [{'cfg': 'MC_Adaptive_q.cfg', 'module': 'MC_Adaptive'}], 'thorough': [{'cfg': 'MC_Adaptive.cfg', 'module': 'MC_Adaptive'}]},
        'gen': {'cfg': 'Gen_Adaptive.cfg', 'module': 'MC_Adaptive', 'num': {'quick': 300, 'thorough': 4000}, 'depth': 40},
        'trace_module': 'Trace_Adaptive', 'trace_cfg_tmpl': 'Trace_Adaptive.cfg.tmpl',
        'tour': {'cfg': 'Tour_Adaptive.cfg', 'module': 'MC_Adaptive', 'n': {'quick': 1200, 'thorough': 25000}},
        'harness': 'adaptive',
        'random': {'quick': [{'runs': 1200}], 'thorough': [{'runs': 15000}]},
        'corrupt': _adaptive_corrupt,
    },
    'retry': {
        'spec_files': ['Retry.tla', 'MC_Retry.tla', 'Trace_Retry.tla'],
        'mc': {'quick': [{'cfg': 'MC_Retry_q.cfg', 'module': 'MC_Retry'}], 'thorough': [{'cfg': 'MC_Retry.cfg', 'module': 'MC_Retry'}]},
        'gen': {'cfg': 'Gen_Retry.cfg', 'module': 'MC_Retry', 'num': {'quick': 400, 'thorough': 5000}, 'depth': 50},
        'trace_module': 'Trace_Retry', 'trace_cfg_tmpl': 'Trace_Retry.cfg.tmpl',
        'tour': {'cfg': 'Tour_Retry.cfg', 'module': 'MC_Retry', 'n': {'quick': 1200, 'thorough': 25000}},
        'harness': 'retry',
        'random': {'quick': [{'runs': 1500}], 'thorough': [{'runs': 20000}]},
        'corrupt': _retry_corrupt,
    },
    'backoff': {
        'spec_files': ['Backoff.tla', 'MC_Backoff.tla', 'Trace_Backoff.tla'],
        'mc': {'quick': [{'cfg': 'MC_Backoff.cfg', 'module': 'MC_Backoff'}], 'thorough': [{'cfg': 'MC_Backoff.cfg', 'module': 'MC_Backoff'}]},
        'trace_module': 'Trace_Backoff', 'trace_cfg_tmpl': 'Trace_Backoff.cfg.tmpl',
        'harness': 'backoff',
        'random': {'quick': [{'runs': 0}], 'thorough': [{'runs': 0}]},
        'corrupt': _backoff_corrupt,
    },
    'reconnect': {
        'spec_files': ['Reconnect.tla', 'MC_Reconnect.tla', 'Trace_Reconnect.tla'],
        'mc': {'quick': [{'cfg': 'MC_Reconnect_q.cfg', 'module': 'MC_Reconnect'}], 'thorough': [{'cfg': 'MC_Reconnect.cfg', 'module': 'MC_Reconnect'}]},
        'gen': {'cfg': 'Gen_Reconnect.cfg', 'module': 'MC_Reconnect', 'num': {'quick': 400, 'thorough': 5000}, 'depth': 50},
        'trace_module': 'Trace_Reconnect', 'trace_cfg_tmpl': 'Trace_Reconnect.cfg.tmpl',
        'tour': {'cfg': 'Tour_Reconnect.cfg', 'module': 'MC_Reconnect', 'n': {'quick': 1200, 'thorough': 25000}},
        'harness': 'reconnect',
        'random': {'quick': [{'runs': 1500}], 'thorough': [{'runs': 20000}]},
        'corrupt': _reconnect_corrupt,
    },
    'timelimiter': {
        'spec_files': ['TimeLimiter.tla', 'MC_TimeLimiter.tla', 'Trace_TimeLimiter.tla'],
        'mc': {'quick': [{'cfg': 'MC_TimeLimiter_q.cfg', 'module': 'MC_TimeLimiter'}], 'thorough': [{'cfg': 'MC_TimeLimiter.cfg', 'module': 'MC_TimeLimiter'}]},
        'gen': {'cfg': 'Gen_TimeLimiter.cfg', 'module': 'MC_TimeLimiter', 'num': {'quick': 400, 'thorough': 5000}, 'depth': 40},
        'trace_module': 'Trace_TimeLimiter', 'trace_cfg_tmpl': 'Trace_TimeLimiter.cfg.tmpl',
        'tour': {'cfg': 'Tour_TimeLimiter.cfg', 'module': 'MC_TimeLimiter', 'n': {'quick': 1200, 'thorough': 25000}},
        'harness': 'timelimiter',
        'random': {'quick': [{'runs': 2000}], 'thorough': [{'runs': 30000}]},
        'corrupt': _tl_corrupt,
    },
    'hedge': {
        'spec_files': ['Hedge.tla', 'MC_Hedge.tla', 'Trace_Hedge.tla'],
        'mc': {'quick': [{'cfg': 'MC_Hedge_q.cfg', 'module': 'MC_Hedge'}], 'thorough': [{'cfg': 'MC_Hedge.cfg', 'module': 'MC_Hedge'}]},
        'gen': {'cfg': 'Gen_Hedge.cfg', 'module': 'MC_Hedge', 'num': {'quick': 500, 'thorough': 6000}, 'depth': 40},
        'trace_module': 'Trace_Hedge', 'trace_cfg_tmpl': 'Trace_Hedge.cfg.tmpl',
        'tour': {'cfg': 'Tour_Hedge.cfg', 'module': 'MC_Hedge', 'n': {'quick': 1200, 'thorough': 25000}},
        'harness': 'hedge',
        'random': {'quick': [{'runs': 2000}], 'thorough': [{'runs': 30000}]},
        'corrupt': _hedge_corrupt,
    },
    'cache': {
        'spec_files': ['Cache.tla', 'MC_Cache.tla', 'Trace_Cache.tla'],
        'mc': {'quick': [{'cfg': 'MC_Cache_q.cfg', 'module': 'MC_Cache'}], 'thorough': [{'cfg': 'MC_Cache_t.cfg', 'module': 'MC_Cache', 'timeout': 3000}]},
        'gen': {'cfg': 'Gen_Cache.cfg', 'module': 'MC_Cache', 'num': {'quick': 400, 'thorough': 5000}, 'depth': 60},
        'trace_module': 'Trace_Cache', 'trace_cfg_tmpl': 'Trace_Cache.cfg.tmpl',
        'tour': {'cfg': 'Tour_Cache.cfg', 'module': 'MC_Cache', 'n': {'quick': 1200, 'thorough': 25000}},
        'harness': 'cache',
        'random': {'quick': [{'runs': 1200}], 'thorough': [{'runs': 15000}]},
        'corrupt': _cache_corrupt,
    },
    'coalesce': {
        'spec_files': ['Coalesce.tla', 'MC_Coalesce.tla', 'Trace_Coalesce.tla'],
        'mc': {'quick': [{'cfg': 'MC_Coalesce_q.cfg', 'module': 'MC_Coalesce'}], 'thorough': [{'cfg': 'MC_Coalesce.cfg', 'module': 'MC_Coalesce'}]},
        'gen': {'cfg': 'Gen_Coalesce.cfg', 'module': 'MC_Coalesce', 'num': {'quick': 400, 'thorough': 5000}, 'depth': 45},
        'trace_module': 'Trace_Coalesce', 'trace_cfg_tmpl': 'Trace_Coalesce.cfg.tmpl',
        'tour': {'cfg': 'Tour_Coalesce.cfg', 'module': 'MC_Coalesce', 'n': {'quick': 1200, 'thorough': 25000}},
        'harness': 'coalesce',
        'random': {'quick': [{'runs': 2000}], 'thorough': [{'runs': 30000}]},
        'corrupt': _coalesce_corrupt,
    },
    'health': {
        'spec_files': ['Health.tla', 'MC_Health.tla', 'Trace_Health.tla'],
        'mc': {'quick': [{'cfg': 'MC_Health.cfg', 'module': 'MC_Health'}], 'thorough': [{'cfg': 'MC_Health.cfg', 'module': 'MC_Health'}]},
        'trace_module': 'Trace_Health', 'trace_cfg_tmpl': 'Trace_Health.cfg.tmpl',
        'harness': 'health',
        'random': {'quick': [{'runs': 0}], 'thorough': [{'runs': 0}]},
        'corrupt': _health_corrupt,
    },
    'chaos': {
        'spec_files': ['Chaos.tla', 'MC_Chaos.tla', 'Trace_Chaos.tla'],
        'mc': {'quick': [{'cfg': 'MC_Chaos.cfg', 'module': 'MC_Chaos'}], 'thorough': [{'cfg': 'MC_Chaos.cfg', 'module': 'MC_Chaos'}]},
        'trace_module': 'Trace_Chaos', 'trace_cfg_tmpl': 'Trace_Chaos.cfg.tmpl',
        'harness': 'chaos',
        'random': {'quick': [{'runs': 0}], 'thorough': [{'runs': 0}]},
        'corrupt': _chaos_corrupt,
    },
    'fallback': {
        'spec_files': ['Fallback.tla', 'MC_Fallback.tla', 'Trace_Fallback.tla'],
        'mc': {'quick': [{'cfg': 'MC_Fallback.cfg', 'module': 'MC_Fallback'}], 'thorough': [{'cfg': 'MC_Fallback.cfg', 'module': 'MC_Fallback'}]},
        'gen': {'cfg': 'Gen_Fallback.cfg', 'module': 'MC_Fallback', 'num': {'quick': 500, 'thorough': 5000}, 'depth': 30},
        'trace_module': 'Trace_Fallback', 'trace_cfg_tmpl': 'Trace_Fallback.cfg.tmpl',
        'tour': {'cfg': 'Tour_Fallback.cfg', 'module': 'MC_Fallback', 'n': {'quick': 1200, 'thorough': 25000}},
        'harness': 'fallback',
        'random': {'quick': [{'runs': 1500}], 'thorough': [{'runs': 20000}]},
        'corrupt': _fallback_corrupt,
    },
    'stacks': {
        'spec_files': ['Stacks.tla', 'Readiness.tla', 'Trace_Stacks.tla'],
        'mc': {'quick': [{'cfg': 'MC_Readiness.cfg', 'module': 'Readiness'}], 'thorough': [{'cfg': 'MC_Readiness.cfg', 'module': 'Readiness'}]},
        'trace_module': 'Trace_Stacks', 'trace_cfg_tmpl': 'Trace_Stacks.cfg.tmpl',
        'harness': 'stacks',
        'random': {'quick': [{'runs': 1500}], 'thorough': [{'runs': 20000}]},
        'corrupt': _stacks_corrupt,
    },
    'listeners': {
        'spec_files': ['Listeners.tla'],
        'mc': {'quick': [{'cfg': 'MC_Listeners.cfg', 'module': 'Listeners'}], 'thorough': [{'cfg': 'MC_Listeners.cfg', 'module': 'Listeners'}]},
        'trace_module': 'Listeners', 'trace_cfg_tmpl': 'Trace_Listeners.cfg.tmpl',
        'harness': 'listeners',
        'random': {'quick': [{'runs': 0}], 'thorough': [{'runs': 0}]},
        'corrupt': _listeners_corrupt,
    },
    'executor': {
        'spec_files': ['Executor.tla', 'MC_Executor.tla', 'Trace_Executor.tla'],
        'mc': {'quick': [{'cfg': 'MC_Executor.cfg', 'module': 'MC_Executor'}], 'thorough': [{'cfg': 'MC_Executor.cfg', 'module': 'MC_Executor'}]},
        'gen': {'cfg': 'Gen_Executor.cfg', 'module': 'MC_Executor', 'num': {'quick': 200, 'thorough': 2000}, 'depth': 30},
        'trace_module': 'Trace_Executor', 'trace_cfg_tmpl': 'Trace_Executor.cfg.tmpl',
        'harness': 'executor',
        'random': {'quick': [{'runs': 600}], 'thorough': [{'runs': 8000}]},
        'corrupt': _executor_corrupt,
    },
}

# In-situ projections (DESIGN.md section 13): the layers of a real stack, each validated against its own specification.
# One harness command per layer; the runs depend on (seed, run, size) only.
def _insitu(comp, layer, stack='S1', quick=300, thorough=4000):
    base = COMPONENTS[comp]
    return {
        'spec_files': base['spec_files'], 'mc': {'quick': [], 'thorough': []},
        'trace_module': base['trace_module'], 'trace_cfg_tmpl': base['trace_cfg_tmpl'],
        'harness': 'insitu', 'corrupt': base['corrupt'],
        'random': {'quick': [{'runs': quick, 'args': ['--variant', '%s:%d' % (stack, layer)]}],
                   'thorough': [{'runs': thorough, 'size': 'thorough', 'args': ['--variant', '%s:%d' % (stack, layer)]},
                                {'runs': thorough // 2, 'size': 'quick', 'args': ['--variant', '%s:%d' % (stack, layer)]}]},
    }


COMPONENTS['insitu_timelimiter'] = _insitu('timelimiter', 1)
COMPONENTS['insitu_circuitbreaker'] = _insitu('circuitbreaker', 2)
COMPONENTS['insitu_bulkhead'] = _insitu('bulkhead', 3)
COMPONENTS['insitu2_timelimiter'] = _insitu('timelimiter', 1, 'S2')
COMPONENTS['insitu_fallback'] = _insitu('fallback', 2, 'S2')
COMPONENTS['insitu_retry'] = _insitu('retry', 3, 'S2')
COMPONENTS['insitu_adaptive'] = _insitu('adaptive', 1, 'S3')
COMPONENTS['insitu_ratelimiter'] = _insitu('ratelimiter', 2, 'S3')
COMPONENTS['insitu_coalesce'] = _insitu('coalesce', 3, 'S3')
COMPONENTS['insitu4_timelimiter'] = _insitu('timelimiter', 1, 'S4')
COMPONENTS['insitu_cache'] = _insitu('cache', 2, 'S4')
COMPONENTS['insitu4_bulkhead'] = _insitu('bulkhead', 3, 'S4')

PROPS = {
    'C01': {'comp': 'bulkhead', 'profile': 'ProfC01', 'drift_profile': 'ProfAll',
            # second batch: late polls (time may pass although somebody is runnable) - C01 does not depend on promptness
            'random': {'quick': [{'runs': 1500}, {'runs': 700, 'args': ['--variant', 'lazy']}],
                       'thorough': [{'runs': 20000}, {'runs': 5000, 'size': 'quick'}, {'runs': 8000, 'args': ['--variant', 'lazy']}]}},
    'C07': {'comp': 'bulkhead', 'profile': 'ProfC07', 'drift_profile': 'ProfAll'},
    'C03': {'comp': 'circuitbreaker', 'profile': 'ProfC03', 'drift_profile': 'ProfAll',
            # second batch: late polls - futures created in one state are first polled in another (the shield does not depend on promptness)
            'random': {'quick': [{'runs': 1500, 'args': ['--variant', 'conc']}, {'runs': 600, 'args': ['--variant', 'lazyc']}],
                       'thorough': [{'runs': 15000, 'args': ['--variant', 'conc']}, {'runs': 6000, 'args': ['--variant', 'lazyc']}]}},
    'C09': {'comp': 'circuitbreaker', 'profile': 'ProfC09', 'drift_profile': 'ProfAll',
            'random': {'quick': [{'runs': 800, 'args': ['--variant', 'conc']}, {'runs': 1500, 'args': ['--variant', 'storm']}],
                       'thorough': [{'runs': 10000, 'args': ['--variant', 'conc']}, {'runs': 20000, 'args': ['--variant', 'storm']}]}},
    'C04': {'comp': 'circuitbreaker', 'profile': 'ProfC04',
            'gen': {'cfg': 'Gen_CB_seq.cfg', 'module': 'MC_CircuitBreaker', 'num': {'quick': 400, 'thorough': 5000}, 'depth': 45},
            'random': {'quick': [{'runs': 1200, 'args': ['--variant', 'seq']}], 'thorough': [{'runs': 6000, 'args': ['--variant', 'seq']}, {'runs': 3000, 'size': 'quick', 'args': ['--variant', 'seq']}]}},
    'C08': {'comp': 'budget', 'profile': 'lin'},
    'C13': {'parts': [{'comp': 'limit', 'profile': 'bounds'}, {'comp': 'adaptive', 'profile': 'service'}]},
    'C05': {'comp': 'retry', 'profile': 'full'},
    'C14': {'comp': 'backoff', 'profile': 'schedule'},
    'C16': {'comp': 'reconnect', 'profile': 'full'},
    'C06': {'comp': 'timelimiter', 'profile': 'full'},
    'C12': {'comp': 'hedge', 'profile': 'full'},
    'C10': {'comp': 'cache', 'profile': 'FALSE', 'drift_profile': 'TRUE'},
    'C11': {'comp': 'coalesce', 'profile': 'full'},
    'C18': {'comp': 'health', 'profile': 'full'},
    'C19': {'comp': 'chaos', 'profile': 'full'},
    'C17': {'comp': 'fallback', 'profile': 'full'},
    # (the in-situ projections are parts of the component properties, under each property's own profile: C20 does not
    #  speak about admission, capacity or timing, so full-behaviour profiles would demand more than it states)
    'C20': {'parts': [{'comp': 'stacks', 'profile': 'transparent+readiness'}, {'comp': 'listeners', 'profile': 'listeners'}, {'comp': 'executor', 'profile': 'executor'}]},
    'C02': {'comp': 'ratelimiter', 'profile': 'ProfC02', 'drift_profile': 'ProfAll',
            # second batch: waiters polled late - the bound on admissions does not depend on promptness
            'random': {'quick': [{'runs': 1500}, {'runs': 700, 'args': ['--variant', 'lazy']}],
                       'thorough': [{'runs': 20000}, {'runs': 5000, 'size': 'quick'}, {'runs': 8000, 'args': ['--variant', 'lazy']}]}},
    'C15': {'comp': 'ratelimiter', 'profile': 'ProfC15', 'drift_profile': 'ProfAll'},
}


def _add_insitu(prop, comp, profile):
    P = PROPS[prop]
    if 'parts' not in P:
        part = {k: v for k, v in P.items() if k not in ('assumptions', 'custom')}
        PROPS[prop] = {k: v for k, v in P.items() if k in ('assumptions', 'custom')}
        PROPS[prop]['parts'] = [part]
    PROPS[prop]['parts'].append({'comp': comp, 'profile': profile})


# every layer of the in-situ stack is also checked under the profile of its own properties: there its
# environment is not the harness but real neighbouring layers (immediate answers, cancellations by a time limiter)
_add_insitu('C06', 'insitu_timelimiter', 'full')
_add_insitu('C06', 'insitu2_timelimiter', 'full')
_add_insitu('C05', 'insitu_retry', 'full')
_add_insitu('C17', 'insitu_fallback', 'full')
_add_insitu('C13', 'insitu_adaptive', 'service')
_add_insitu('C02', 'insitu_ratelimiter', 'ProfC02')
_add_insitu('C15', 'insitu_ratelimiter', 'ProfC15')
_add_insitu('C11', 'insitu_coalesce', 'full')
_add_insitu('C10', 'insitu_cache', 'FALSE')
_add_insitu('C06', 'insitu4_timelimiter', 'full')
_add_insitu('C01', 'insitu4_bulkhead', 'ProfC01')
_add_insitu('C07', 'insitu4_bulkhead', 'ProfC07')
_add_insitu('C01', 'insitu_bulkhead', 'ProfC01')
_add_insitu('C07', 'insitu_bulkhead', 'ProfC07')
_add_insitu('C03', 'insitu_circuitbreaker', 'ProfC03')
_add_insitu('C04', 'insitu_circuitbreaker', 'ProfC04')
_add_insitu('C09', 'insitu_circuitbreaker', 'ProfC09')
