#!/bin/bash
# tools/par_setup.sh <n>: worker copies /tmp/pw<k>/verif (this tree, own cargo target) + /tmp/pw<k>/repo (worktree of /repo HEAD)
# for running seed / benign matrices in parallel without touching /repo. Remove with tools/par_teardown.sh.
n=${1:-4}
for k in ${KS:-$(seq 1 $n)}; do
  d=/tmp/pw$k
  mkdir -p $d
  [ -d $d/repo ] || git -C /repo worktree add -q --detach $d/repo HEAD
  git -C $d/repo checkout -q --detach $(git -C /repo rev-parse HEAD); git -C $d/repo checkout -q -- .
  rsync -a --delete --exclude .git --exclude work --exclude replays --exclude harness/target /verif/ $d/verif/
  mkdir -p $d/verif/replays
  # model-checking results, generated behaviours and tours are keyed by the hash of the spec files: share them
  rsync -a --exclude '*_quick' --exclude '*_thorough' /verif/work/ $d/verif/work/
  [ -d $d/verif/harness/target ] || cp -r /verif/harness/target $d/verif/harness/target
  sed -i "s|/repo/crates|$d/repo/crates|g" $d/verif/harness/Cargo.toml
done
