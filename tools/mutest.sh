#!/bin/sh
# tools/mutest.sh <patch.diff> <ID> [<ID>...]: apply a seeded change to /repo, run the checks, undo it.
p="$1"; shift
git -C /repo apply "$p" || { echo "patch does not apply"; exit 2; }
for id in "$@"; do
  out=$(cd /verif && ./check "$id" --tier ${TIER:-quick} 2>&1); rc=$?
  echo "== $id rc=$rc: $(echo "$out" | grep -c '^VIOLATION') violation lines; $(echo "$out" | grep -E 'TOOL-ERROR' | head -1)"
  echo "$out" | grep -E "first unexplained" | head -2 | cut -c1-400
done
git -C /repo checkout -- . && git -C /repo status --short | head -3
