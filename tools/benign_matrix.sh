#!/bin/bash
# tools/benign_matrix.sh <dir> [tier]: apply every behaviour-preserving change under <dir>/<ID>/<X>/patch.diff
# (or seeded_benign/<name>/patch.diff with meta.json) to /repo in turn, run the property's check, undo it.
# Every line must end in rc=0: these changes keep the property, an alarm on one is a false alarm.
cd /verif
for p in $(ls $1/*/*/patch.diff $1/*/patch.diff 2>/dev/null); do
  d=$(dirname $p)
  if [ -f $d/meta.json ]; then props=$(python3 -c "import json;print(' '.join(json.load(open('$d/meta.json'))['properties']))"); name=$(basename $d)
  else props=$(basename $(dirname $d)); name=$props-$(basename $d); fi
  if ! git -C /repo apply $(realpath $p) 2>/dev/null; then echo "BENIGN $name patch-does-not-apply"; continue; fi
  line="BENIGN $name"
  for id in $props; do
    out=$(./check $id --tier ${2:-quick} 2>&1); rc=$?
    line="$line $id=$rc($(echo "$out" | grep -c '^VIOLATION'))"
    if [ $rc -ne 0 ]; then echo "$out" | grep -E "first unexplained|TOOL-ERROR" | head -2 | cut -c1-600; fi
  done
  git -C /repo checkout -- .
  echo "$line"
done
rm -f replays/*.ndjson
