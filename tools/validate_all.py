#!/opt/veriftools/pyvenv/bin/python
"""Validates MANIFEST.json, every evidence file and properties.jsonl against the schemas in /root/.vp."""
import json, sys, os, jsonschema
root = '/verif'
ok = True
def chk(obj, schema, name):
    global ok
    try:
        jsonschema.validate(obj, schema)
    except Exception as e:
        ok = False
        print('INVALID', name, str(e)[:300])
ms = json.load(open('/root/.vp/MANIFEST.schema.json')); es = json.load(open('/root/.vp/EVIDENCE.schema.json')); ps = json.load(open('/root/.vp/PROPERTIES.schema.json'))
m = json.load(open(root + '/MANIFEST.json')); chk(m, ms, 'MANIFEST.json')
ids = [json.loads(l)['id'] for l in open(root + '/properties.jsonl')]
for l in open(root + '/properties.jsonl'):
    chk(json.loads(l), ps, 'properties.jsonl')
claimed = [c['property_id'] for c in m['checks']]
na = [x['property_id'] if isinstance(x, dict) else x for x in m.get('not_applicable', [])]
for i in ids:
    if i not in claimed and i not in na:
        ok = False; print('property neither claimed nor not_applicable:', i)
for c in m['checks']:
    f = os.path.join(root, c['evidence_file'])
    if not os.path.exists(f):
        ok = False; print('missing evidence', f); continue
    chk(json.load(open(f)), es, c['evidence_file'])
print('all valid' if ok else 'PROBLEMS'); sys.exit(0 if ok else 1)
