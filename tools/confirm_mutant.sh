#!/bin/bash
# tools/confirm_mutant.sh <dir with patch.diff demo.rs> <crate-suffix> <integration-test-target>
# Confirms in a scratch worktree of /repo HEAD: demo passes without the change; with it the
# workspace builds, the component's existing tests pass, and the demo fails.
d="$1"; crate="tower-resilience-$2"; itest="$3"
WT=${MUTCONF_WT:-/tmp/mutconf}
export CARGO_TARGET_DIR=${MUTCONF_TARGET:-/tmp/mutconf_target}
if [ ! -d $WT ]; then git -C /repo worktree add -q --detach $WT HEAD || exit 2; fi
cd $WT && git checkout -q --detach $(git -C /repo rev-parse HEAD) && git checkout -q -- . && git clean -fdq
mkdir -p crates/$crate/tests && cp "$d/demo.rs" crates/$crate/tests/mutant_demo.rs
r() { timeout 2400 "$@" >$WT.log 2>&1; echo $?; }
a=$(r cargo test --offline -p $crate --test mutant_demo)
git apply "$d/patch.diff" || { echo "RESULT $d patch-does-not-apply"; exit 1; }
b=$(r cargo build --offline --workspace)
c=$(r cargo test --offline -p $crate --lib --tests --  --skip mutant)
# the crate's own tests excluding the demo file
rm crates/$crate/tests/mutant_demo.rs
c=$(r cargo test --offline -p $crate)
e=$(r cargo test --offline -p tower-resilience-tests --test $itest)
cp "$d/demo.rs" crates/$crate/tests/mutant_demo.rs
f=$(r cargo test --offline -p $crate --test mutant_demo)
echo "RESULT $d demo_clean=$a build=$b crate_tests=$c itest=$e demo_mutant=$f"
git checkout -q -- . && git clean -fdq
