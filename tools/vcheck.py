#!/usr/bin/env python3
"""Orchestrator: ./check <ID> [--tier quick|thorough] [--replay path]
Pipeline per property (DESIGN.md section 2): build harness against /repo's working tree ->
TLC model-checks the component spec -> TLC generates behaviours -> harness replays them in
the real middleware and runs a seeded random environment -> TLC validates every recorded
trace against the spec under the property's enforcement profile -> evidence.
Exit 0 = held on everything explored; 1 = VIOLATION line printed; 2 = tool failure."""
import sys, os, json, subprocess, time, hashlib, shutil, re, concurrent.futures as cf

ROOT = os.path.dirname(os.path.dirname(os.path.abspath(__file__)))
SPEC = os.path.join(ROOT, 'spec')
WORK = os.path.join(ROOT, 'work')
HARN = os.path.join(ROOT, 'harness')
VH = os.path.join(HARN, 'target', 'release', 'vh')
sys.path.insert(0, os.path.join(ROOT, 'tools'))
from registry import PROPS, COMPONENTS  # noqa

TLC_JAVA_OPTS = '-Xss1g -Dtlc2.tool.queue.IStateQueue=StateDeque -XX:ParallelGCThreads=2'
# VERIF_FIRST=1 (matrix tools): stop at the first rejected run instead of collecting up to 12 per chunk
FIRST_ONLY = os.environ.get('VERIF_FIRST') == '1'


class ToolError(Exception):
    pass


def log(*a):
    print(*a, flush=True)


def sh(cmd, timeout=None, env=None, cwd=None):
    e = dict(os.environ)
    if env:
        e.update(env)
    p = subprocess.run(cmd, shell=isinstance(cmd, str), stdout=subprocess.PIPE, stderr=subprocess.STDOUT,
                       timeout=timeout, env=e, cwd=cwd, text=True, errors='replace')
    return p.returncode, p.stdout


def build_harness():
    t = time.time()
    env = {'CARGO_NET_OFFLINE': 'true'}
    # keep the lock file in step with /repo's (path dependencies); offline
    rc, out = sh(['cargo', 'build', '--release', '--offline'], cwd=HARN, env=env, timeout=3600)
    if rc != 0:
        log(out[-4000:])
        raise ToolError('harness build failed (does /repo still compile with --features verif-hooks?)')
    return time.time() - t


def spec_hash(files):
    h = hashlib.sha256()
    for f in sorted(files):
        with open(f, 'rb') as fh:
            h.update(fh.read())
    return h.hexdigest()[:16]


def tlc(cfg, module, workdir, workers=8, extra=None, env=None, timeout=3600, java_opts=None, heap='8g'):
    os.makedirs(workdir, exist_ok=True)
    meta = os.path.join(workdir, 'meta')
    shutil.rmtree(meta, ignore_errors=True)
    e = {}
    # explicit heap: the JVM default (a quarter of the RAM per process) overcommits when several
    # validators run in parallel
    e['JAVA_TOOL_OPTIONS'] = ((java_opts + ' ') if java_opts else '') + '-Xmx' + heap
    if env:
        e.update(env)
    cmd = ['timeout', str(timeout), 'java', '-XX:+UseParallelGC', '-Xmx' + heap, '-cp', '/opt/veriftools/tla/tla2tools.jar:/opt/veriftools/tla/CommunityModules-deps.jar',
           'tlc2.TLC']
    # use the tlc wrapper if present (it sets the classpath for CommunityModules)
    cmd = ['timeout', str(timeout), 'tlc']
    cmd += ['-workers', str(workers), '-metadir', meta, '-cleanup', '-noGenerateSpecTE']
    if extra:
        cmd += extra
    cmd += ['-config', cfg, module]
    rc, out = sh(cmd, env=e, cwd=SPEC)
    shutil.rmtree(meta, ignore_errors=True)
    return rc, out


def parse_mc(out):
    m = re.search(r'(\d+) states generated, (\d+) distinct states found', out)
    if not m:
        return None
    d = re.search(r'depth of the complete state graph search is (\d+)', out)
    return {'generated': int(m.group(1)), 'distinct': int(m.group(2)), 'depth': int(d.group(1)) if d else None}


def parse_action_coverage(out):
    """per-action counts from -coverage 1: lines '<Action line .. of module M>: distinct:generated'"""
    acts = {}
    for m in re.finditer(r'^<(\w+) line (\d+), col \d+ to line \d+, col \d+ of module (\w+)>: (\d+):(\d+)', out, re.M):
        name = m.group(1)
        acts[name] = acts.get(name, 0) + int(m.group(5))
    return acts


def run_mc(comp, tier):
    """exhaustive model checking of the component spec; cached on the spec text (it does not depend on /repo)"""
    c = COMPONENTS[comp]
    res = []
    for mc in c['mc'][tier]:
        cfg = os.path.join(SPEC, mc['cfg'])
        mod = os.path.join(SPEC, mc['module'] + '.tla')
        files = [cfg, mod] + [os.path.join(SPEC, f) for f in c['spec_files']]
        key = spec_hash(files) + '_' + mc['cfg'].replace('.cfg', '')
        cache = os.path.join(WORK, 'mc_cache', key + '.json')
        if os.path.exists(cache):
            r = json.load(open(cache))
            r['cached'] = True
            res.append(r)
            continue
        t = time.time()
        rc, out = tlc(cfg, mod, os.path.join(WORK, 'mc_' + key), workers=mc.get('workers', 8), extra=['-coverage', '1'] + mc.get('extra', []),
                      timeout=mc.get('timeout', 1800), heap=mc.get('heap', '12g'))
        st = parse_mc(out)
        if (st is None or 'Error:' in out) and 'is violated' not in out and not mc.get('_retried'):
            # transient failure (memory pressure, JVM start): once more
            mc = dict(mc, _retried=True)
            time.sleep(5)
            rc, out = tlc(cfg, mod, os.path.join(WORK, 'mc_' + key), workers=mc.get('workers', 8), extra=['-coverage', '1'] + mc.get('extra', []),
                          timeout=mc.get('timeout', 1800), heap=mc.get('heap', '12g'))
            st = parse_mc(out)
        if st is None or 'Error:' in out or 'is violated' in out:
            tail = '\n'.join([ln for ln in out.splitlines() if not ln.startswith('  |') and not ln.startswith('<')][-40:])
            log(tail[-3000:])
            try:
                open(os.path.join(WORK, 'tlc_fail_%s.log' % key), 'w').write(out[-200000:])
            except Exception:
                pass
            raise ToolError('model checking of %s failed (the specification itself violates an invariant, or TLC broke)' % mc['cfg'])
        acts = parse_action_coverage(out)
        r = {'cfg': mc['cfg'], 'states': st['distinct'], 'transitions': st['generated'], 'depth': st['depth'],
             'actions': acts, 'never_taken': sorted(a for a, n in acts.items() if n == 0), 'wall_s': round(time.time() - t, 1), 'cached': False}
        os.makedirs(os.path.dirname(cache), exist_ok=True)
        json.dump(r, open(cache, 'w'))
        res.append(r)
    return res


def run_gen(comp, tier, seed, g=None):
    """TLC simulation mode prints behaviours of the spec; returns path of an ndjson schedule file"""
    c = COMPONENTS[comp]
    g = g or c.get('gen')
    if not g:
        return None, 0
    num = g['num'][tier]
    depth = g['depth']
    cfg = os.path.join(SPEC, g['cfg'])
    mod = os.path.join(SPEC, g['module'] + '.tla')
    files = [cfg, mod] + [os.path.join(SPEC, f) for f in c['spec_files']]
    key = '%s_%s_%d_%d_%d' % (spec_hash(files), comp, num, depth, seed)
    outp = os.path.join(WORK, 'gen_cache', key + '.ndjson')
    if os.path.exists(outp):
        return outp, sum(1 for ln in open(outp) if '"e": "reset"' in ln)
    rc, out = tlc(cfg, mod, os.path.join(WORK, 'gen_' + key), workers=1,
                  extra=['-simulate', 'num=%d' % num, '-depth', str(depth), '-seed', str(seed)], timeout=900, heap='4g')
    os.makedirs(os.path.dirname(outp), exist_ok=True)
    n = 0
    with open(outp + '.tmp', 'w') as f:
        last = 10 ** 9
        for m in re.finditer(r'^<<"GEN", (\d+), "(.*)">>$', out, re.M):
            lvl = int(m.group(1))
            js = m.group(2).replace('\\"', '"').replace('\\\\', '\\')
            try:
                rec = json.loads(js)
            except Exception:
                continue
            ev = rec.get('ev', {})
            if lvl == 1:
                continue   # initial states are printed once, up front; behaviours start at level 2
            if lvl == last:
                continue   # alternative successors of the same action instance (same environment step)
            if lvl < last or lvl == 2:
                # a new behaviour starts: the reset line carries the configuration the spec chose
                n += 1
                f.write(json.dumps({'e': 'reset', 'cfg': rec.get('cfg'), 'seed': seed, 'src': 'tlc'}) + '\n')
            last = lvl
            if ev.get('e') not in ('init', None):
                f.write(json.dumps(ev) + '\n')
    if n == 0:
        log(out[-2000:])
        raise ToolError('behaviour generation produced nothing for ' + comp)
    os.replace(outp + '.tmp', outp)
    return outp, n


def run_tour(comp, tier, seed, t=None):
    """Transition tour (direction 1, systematic): TLC explores a small model exhaustively and prints every
    transition; for a seeded sample of the transitions (all of them if few) a schedule is built from the
    shortest path to the transition's source state plus the transition itself."""
    import random
    c = COMPONENTS[comp]
    t = t or c.get('tour')
    if not t:
        return None, 0, 0
    cfg = os.path.join(SPEC, t['cfg'])
    mod = os.path.join(SPEC, t['module'] + '.tla')
    files = [cfg, mod] + [os.path.join(SPEC, f) for f in c['spec_files']]
    nmax = t['n'][tier]
    key = '%s_%s_tour_%d_%d' % (spec_hash(files), comp, nmax, seed)
    outp = os.path.join(WORK, 'gen_cache', key + '.ndjson')
    meta = outp + '.meta'
    if os.path.exists(outp) and os.path.exists(meta):
        m = json.load(open(meta))
        return outp, m['schedules'], m['edges']
    os.makedirs(os.path.dirname(outp), exist_ok=True)
    raw = os.path.join(WORK, 'tour_%s.raw' % key)
    md = os.path.join(WORK, 'tour_' + key)
    shutil.rmtree(md, ignore_errors=True)
    with open(raw, 'w') as fh:
        e = dict(os.environ)
        e['JAVA_TOOL_OPTIONS'] = '-Xmx6g'
        subprocess.run(['timeout', '900', 'tlc', '-workers', '4', '-metadir', md, '-cleanup', '-noGenerateSpecTE', '-config', cfg, mod],
                       stdout=fh, stderr=subprocess.STDOUT, env=e, cwd=SPEC)
    shutil.rmtree(md, ignore_errors=True)
    edges = []   # (level, fkey, tkey, cfg, ev)
    rx = re.compile(r'^<<"EDGE", (\d+), "(.*)">>$')
    with open(raw) as fh:
        for ln in fh:
            m = rx.match(ln.rstrip('\n'))
            if not m:
                continue
            try:
                rec = json.loads(m.group(2).replace('\\"', '"').replace('\\\\', '\\'))
            except Exception:
                continue
            edges.append((int(m.group(1)), json.dumps(rec['f'], sort_keys=True), json.dumps(rec['t'], sort_keys=True), rec.get('cfg'), rec['ev']))
    os.remove(raw)
    if not edges:
        raise ToolError('transition tour produced no edges for ' + comp)
    edges.sort(key=lambda x: x[0])
    pred = {}      # state key -> (pred key, ev)  (first seen in level order = a shortest path)
    root_cfg = {}
    for lvl, fk, tk, cf, ev in edges:
        if lvl == 1 and fk not in pred:
            pred[fk] = None
            root_cfg[fk] = cf
        if tk not in pred:
            pred[tk] = (fk, ev)
    def path(k):
        out = []
        while pred.get(k) is not None:
            k2, ev = pred[k]
            out.append(ev)
            k = k2
        return list(reversed(out)), k
    rnd = random.Random(seed)
    idx = list(range(len(edges)))
    if len(idx) > nmax:
        idx = rnd.sample(idx, nmax)
    n = 0
    with open(outp + '.tmp', 'w') as f:
        for i in idx:
            lvl, fk, tk, cf, ev = edges[i]
            if fk not in pred:
                continue
            evs, root = path(fk)
            f.write(json.dumps({'e': 'reset', 'cfg': root_cfg.get(root, cf), 'seed': seed, 'src': 'tour'}) + '\n')
            for x in evs + [ev]:
                f.write(json.dumps(x) + '\n')
            n += 1
    os.replace(outp + '.tmp', outp)
    json.dump({'schedules': n, 'edges': len(edges)}, open(meta, 'w'))
    return outp, n, len(edges)


def run_apalache(comp):
    """unbounded safety of a small typed module: the inductive invariant is discharged by Apalache
    (base case at length 0 from Init, inductive step at length 1 from an arbitrary state satisfying it)"""
    a = COMPONENTS[comp].get('apalache')
    if not a:
        return None
    mod = os.path.join(SPEC, a['module'])
    key = spec_hash([mod])
    cache = os.path.join(WORK, 'mc_cache', 'apalache_' + key + '.json')
    if os.path.exists(cache):
        return json.load(open(cache))
    outd = os.path.join(WORK, 'apalache_' + key)
    res = {'module': a['module'], 'invariant': a['inv'], 'obligations': []}
    for name, init, length in (('base', a['init'], 0), ('step', a['indinit'], 1)):
        t = time.time()
        rc, out = sh(['timeout', '900', 'apalache-mc', 'check', '--cinit=' + a['cinit'], '--init=' + init, '--inv=' + a['inv'], '--length=%d' % length,
                      '--out-dir=' + outd, mod], cwd=os.path.dirname(mod))
        ok = 'EXITCODE: OK' in out
        res['obligations'].append({'name': name, 'ok': ok, 'wall_s': round(time.time() - t, 1)})
        if not ok:
            # depends on the specification only, never on /repo: not a verdict about the code, so not fatal
            log('[apalache] WARNING: %s obligation of %s not discharged (tool output tail follows)' % (name, a['inv']))
            log(out[-800:])
            shutil.rmtree(outd, ignore_errors=True)
            return res
    shutil.rmtree(outd, ignore_errors=True)
    os.makedirs(os.path.dirname(cache), exist_ok=True)
    json.dump(res, open(cache, 'w'))
    return res


def harness(args, timeout=3600):
    rc, out = sh([VH] + args, timeout=timeout)
    if rc != 0:
        log(out[-3000:])
        raise ToolError('harness failed: vh ' + ' '.join(args))
    st = {}
    for ln in out.splitlines():
        if ln.startswith('{'):
            try:
                st = json.loads(ln)
            except Exception:
                pass
    return st


def split_runs(path):
    runs, cur = [], None
    with open(path) as f:
        for ln in f:
            if not ln.strip():
                continue
            if '"e":"reset"' in ln or '"e": "reset"' in ln:
                cur = [ln]
                runs.append(cur)
            elif cur is not None:
                cur.append(ln)
    return runs


def write_cfg(comp, profile, workdir):
    c = COMPONENTS[comp]
    tmpl = open(os.path.join(SPEC, c['trace_cfg_tmpl'])).read()
    p = os.path.join(workdir, 'Trace_%s_%s.cfg' % (comp, profile))
    open(p, 'w').write(tmpl.replace('@ENFORCE@', profile))
    return p


def validate_file(comp, profile, runs, workdir, tag):
    """Validate a list of runs (each a list of lines) with one TLC process. On rejection, cut the
    offending run out and go on, so that all failing runs are collected.
    Returns (n_accepted_runs, rejected:[(run_lines, reject_index_in_run, event)], tlc_states)"""
    c = COMPONENTS[comp]
    cfgp = write_cfg(comp, profile, workdir)
    mod = os.path.join(SPEC, c['trace_module'] + '.tla')
    rejected = []
    states = 0
    runs = list(runs)
    guard = 0
    while runs and guard < (1 if FIRST_ONLY else 12):
        guard += 1
        tf = os.path.join(workdir, 'trace_%s.ndjson' % tag)
        with open(tf, 'w') as f:
            for r in runs:
                f.writelines(r)
        rc, out = tlc(cfgp, mod, os.path.join(workdir, 'tv_' + tag), workers=1, env={'TRACE': tf}, java_opts=TLC_JAVA_OPTS, timeout=1800, heap='3g')
        st = parse_mc(out)
        if st:
            states += st['generated']
        m = re.search(r'<<"REJECTED", (\d+), "(.*)">>', out)
        if m is None:
            if st is None or 'Error:' in out.replace('Error: The postcondition', ''):
                if 'postcondition' not in out:
                    log(out[-3000:])
                    raise ToolError('trace validation crashed (%s, %s)' % (comp, profile))
            if 'REJECTED' not in out:
                return len(runs), rejected, states
        d = int(m.group(1))
        # locate the run containing line d (1-based)
        k, acc = 0, 0
        while k < len(runs) and acc + len(runs[k]) < d:
            acc += len(runs[k])
            k += 1
        if k >= len(runs):
            raise ToolError('cannot locate rejected line %d' % d)
        idx = d - acc  # 1-based within run
        try:
            ev = json.loads(runs[k][idx - 1])
        except Exception:
            ev = {}
        rejected.append((runs[k], idx, ev))
        del runs[k]
    n_ok = len(runs) if guard < 12 and not (FIRST_ONLY and rejected) else 0
    return n_ok, rejected, states


def validate(comp, profile, trace_path, workdir, par=8, tag='t'):
    runs = split_runs(trace_path)
    if not runs:
        raise ToolError('empty trace ' + trace_path)
    par = max(1, min(par, len(runs) // 20 + 1))
    chunks = [runs[i::par] for i in range(par)]
    acc, rej, states = 0, [], 0
    with cf.ThreadPoolExecutor(max_workers=par) as ex:
        futs = [ex.submit(validate_file, comp, profile, ch, workdir, '%s_%s_%d' % (tag, profile, i)) for i, ch in enumerate(chunks)]
        for f in futs:
            a, r, s = f.result()
            acc += a
            rej += r
            states += s
    return {'runs': len(runs), 'accepted': acc, 'rejected': rej, 'events': sum(len(r) for r in runs), 'tlc_states': states}


def load_known():
    p = os.path.join(ROOT, 'known_findings.json')
    if not os.path.exists(p):
        return []
    return json.load(open(p)).get('findings', [])


def match_known(prop, comp, run, idx, ev, known):
    cfg = {}
    try:
        cfg = json.loads(run[0]).get('cfg', {})
    except Exception:
        pass
    for k in known:
        if k.get('kind') != 'known' or k.get('property') != prop or k.get('component', comp) != comp:
            continue
        sig = k.get('signature', {})
        if all(ev.get(a) == b for a, b in sig.get('event', {}).items()) and all(cfg.get(a) == b for a, b in sig.get('cfg', {}).items()):
            return k
    return None


def corrupt(comp, runs, profile):
    """binding self-test: the component's corruption function alters what one event observed
    (returns a new list of events or None if the run has nothing to corrupt)"""
    fn = COMPONENTS[comp]['corrupt']
    for r in runs:
        try:
            evs = [json.loads(x) for x in r]
        except Exception:
            continue
        r2 = fn(evs, profile)
        if r2 is not None:
            return [json.dumps(e) + '\n' for e in r2], True
    return None, None


def run_part(prop, P, part, tier, seed, workdir, known):
    comp = part['comp']
    C = COMPONENTS[comp]
    profile = part.get('profile', 'none')
    mc = run_mc(comp, tier)
    for r in mc:
        log('[%s] MC %s: %d distinct states, %d transitions, depth %s%s' % (prop, r['cfg'], r['states'], r['transitions'], r['depth'], ' (cached)' if r.get('cached') else ''))
        if r['never_taken']:
            log('[%s] note: actions never taken in %s: %s' % (prop, r['cfg'], r['never_taken']))

    traces = []
    gen_path, gen_n = run_gen(comp, tier, seed, part.get('gen'))
    skipped = 0
    if gen_path:
        outp = os.path.join(workdir, 'tr_gen.ndjson')
        st = harness([C['harness'], 'replay', '--in', gen_path, '--finale', '--out', outp])
        skipped = st.get('skipped', 0)
        traces.append(('gen', outp))
        log('[%s] replayed %d TLC-generated behaviours in the implementation (%d events, %d steps skipped)' % (prop, gen_n, st.get('events', 0), skipped))
    tour_path, tour_n, tour_edges = run_tour(comp, tier, seed, part.get('tour'))
    if tour_path:
        outp = os.path.join(workdir, 'tr_tour.ndjson')
        st = harness([C['harness'], 'replay', '--in', tour_path, '--finale', '--out', outp] + C.get('tour', {}).get('args', []))
        skipped += st.get('skipped', 0)
        traces.append(('tour', outp))
        log('[%s] transition tour: %d of %d transitions of the small model replayed in the implementation (%d events)' % (prop, tour_n, tour_edges, st.get('events', 0)))
    for k, rnd in enumerate((part.get('random') or C['random'])[tier]):
        outp = os.path.join(workdir, 'tr_rnd%d.ndjson' % k)
        st = harness([C['harness'], 'random', '--seed', str(seed + 1000 * k), '--runs', str(rnd['runs']), '--size', rnd.get('size', tier), '--out', outp] + rnd.get('args', []))
        traces.append(('rnd%d' % k, outp))
        log('[%s] random environment: %d runs, %d events' % (prop, st.get('runs', 0), st.get('events', 0)))

    tot = {'runs': 0, 'accepted': 0, 'events': 0, 'tlc_states': 0}
    violations, known_hits = [], []
    samples = []
    first_ok_runs = None
    for tag, path in traces:
        v = validate(comp, profile, path, workdir, par=8, tag=tag)
        for k in ('runs', 'accepted', 'events', 'tlc_states'):
            tot[k] += v[k]
        runs = split_runs(path)
        if first_ok_runs is None and not v['rejected']:
            first_ok_runs = runs
        if runs and len(samples) < 3:
            samples.append({'source': tag, 'events': [json.loads(x) for x in runs[min(3, len(runs) - 1)][:30]]})
        for (run, idx, ev) in v['rejected']:
            kf = match_known(prop, comp, run, idx, ev, known)
            if kf:
                known_hits.append(kf)
                continue
            h = hashlib.sha1(''.join(run).encode()).hexdigest()[:10]
            rp = os.path.join(ROOT, 'replays', '%s_%s.ndjson' % (prop, h))
            with open(rp, 'w') as f:
                f.writelines(run[:idx])   # up to and including the first unmatched event
            violations.append((rp, idx, ev))
        log('[%s] trace validation %s under %s: %d/%d runs accepted, %d events' % (prop, tag, profile, v['accepted'], v['runs'], v['events']))
        if FIRST_ONLY and violations:
            break

    # binding self-test: a corrupted trace must be rejected
    selftest = {'corrupted_rejected': None}
    if first_ok_runs:
        r2, at = corrupt(comp, first_ok_runs[:200], profile)
        if r2 is not None:
            n_ok, rej, _ = validate_file(comp, profile if part.get('selftest_profile') is None else part['selftest_profile'], [r2], workdir, 'selftest')
            selftest['corrupted_rejected'] = bool(rej)
            selftest['corrupted_at'] = at
            if not rej:
                raise ToolError('binding self-test failed: a corrupted trace was accepted (%s)' % comp)
        else:
            selftest['corrupted_rejected'] = 'no corruptible event found'

    # drift: the full profile on the generated traces (informational)
    drift = None
    if not violations and part.get('drift_profile') and tier == 'thorough':
        dv = validate(comp, part['drift_profile'], traces[0][1], workdir, par=8, tag='drift')
        drift = {'profile': part['drift_profile'], 'runs': dv['runs'], 'accepted': dv['accepted']}
        if dv['rejected']:
            log('DRIFT component=%s %d runs differ from the full model (first: %s)' % (comp, len(dv['rejected']), json.dumps(dv['rejected'][0][2])[:300]))

    apal = run_apalache(comp)
    if apal and len(apal['obligations']) == 2 and all(o['ok'] for o in apal['obligations']):
        log('[%s] Apalache: inductive invariant %s of %s discharged (base + step)' % (prop, apal['invariant'], apal['module']))
    return {'comp': comp, 'profile': profile, 'mc': mc, 'gen_n': gen_n, 'tour_n': tour_n, 'tour_edges': tour_edges, 'apalache': apal, 'skipped': skipped, 'tot': tot, 'violations': violations,
            'known_hits': known_hits, 'samples': samples, 'selftest': selftest, 'drift': drift}


def check(prop, tier, seed, replay=None):
    t0 = time.time()
    P = PROPS[prop]
    part0 = (P.get('parts') or [P])[0]
    comp = part0['comp']
    C = COMPONENTS[comp]
    profile = part0.get('profile', 'none')
    workdir = os.path.join(WORK, '%s_%s' % (prop, tier))
    shutil.rmtree(workdir, ignore_errors=True)
    os.makedirs(workdir, exist_ok=True)
    os.makedirs(os.path.join(ROOT, 'evidence'), exist_ok=True)
    os.makedirs(os.path.join(ROOT, 'replays'), exist_ok=True)
    bt = build_harness()
    log('[%s] harness built in %.1fs' % (prop, bt))

    if replay:
        # a replay file of an in-situ projection names its component in the reset line: validate it as that part
        try:
            rc0 = json.loads(open(replay).readline()).get('comp', '')
        except Exception:
            rc0 = ''
        for part in (P.get('parts') or [P]):
            if part['comp'] == rc0:
                comp, C, profile = rc0, COMPONENTS[rc0], part.get('profile', 'none')
        outp = os.path.join(workdir, 'replay_out.ndjson')
        harness([C['harness'], 'replay', '--in', replay, '--out', outp])
        v = validate(comp, profile, outp, workdir, par=1, tag='rp')
        if v['rejected']:
            run, idx, ev = v['rejected'][0]
            log('replay: rejected at event %d of the run: %s' % (idx, json.dumps(ev)[:400]))
            log('VIOLATION property=%s replay=%s' % (prop, replay))
            return 1
        log('replay: accepted under profile %s (%d events)' % (profile, v['events']))
        return 0

    known = load_known()
    parts = P.get('parts') or [P]
    results = [run_part(prop, P, part, tier, seed, workdir, known) for part in parts]
    mc = [m for r in results for m in r['mc']]
    gen_n = sum(r['gen_n'] for r in results)
    tour_n = sum(r['tour_n'] for r in results)
    tour_edges = sum(r['tour_edges'] for r in results)
    skipped = sum(r['skipped'] for r in results)
    tot = {k: sum(r['tot'][k] for r in results) for k in ('runs', 'accepted', 'events', 'tlc_states')}
    violations = [v for r in results for v in r['violations']]
    known_hits = [v for r in results for v in r['known_hits']]
    samples = [x for r in results for x in r['samples']][:4]
    selftest = {r['comp']: r['selftest'] for r in results}
    drift = {r['comp']: r['drift'] for r in results}
    profile = '+'.join(r['profile'] for r in results)
    seen = set()
    for kf in known_hits:
        if kf['id'] not in seen:
            seen.add(kf['id'])
            log('KNOWN-FINDING: property=%s %s' % (prop, kf['description']))
    for rp, idx, ev in violations[:20]:
        log('  first unexplained event (#%d of the run): %s' % (idx, json.dumps(ev)[:500]))
        log('VIOLATION property=%s replay=%s' % (prop, rp))

    evd = {
        'property_id': prop, 'tier': tier, 'seed': seed, 'level': 'model_checking',
        'coverage': {
            'states': sum(r['states'] for r in mc), 'transitions': sum(r['transitions'] for r in mc),
            'traces_validated_against_impl': tot['accepted'],
            'samples': samples if samples else [{'note': 'no trace'}],
            'model_checking': mc,
            'tlc_generated_behaviours_replayed': gen_n, 'tour_transitions_replayed': tour_n, 'tour_transitions_in_model': tour_edges, 'schedule_steps_skipped': skipped,
            'trace_runs': tot['runs'], 'trace_events': tot['events'], 'trace_validation_states': tot['tlc_states'],
            'profile': profile, 'selftest': selftest, 'drift': drift,
            'known_findings_matched': len(known_hits), 'apalache': [r.get('apalache') for r in results if r.get('apalache')],
            'checker_cmd': './check %s --tier %s' % (prop, tier),
            'exhaustive': False,
        },
        'assumptions': P.get('assumptions', []) + ['TLC, CommunityModules, tokio paused clock and timer wheel are trusted', 'poll-level interleavings on one thread with an urgent executor (DESIGN.md 3.1, 8)'],
        'wall_s': round(time.time() - t0, 1), 'violations': len(violations),
    }
    json.dump(evd, open(os.path.join(ROOT, 'evidence', prop + '.json'), 'w'), indent=1)
    log('[%s] done in %.1fs: %d violations, %d known findings' % (prop, time.time() - t0, len(violations), len(seen)))
    return 1 if violations else 0


def main():
    a = sys.argv[1:]
    if not a:
        print(__doc__)
        return 2
    prop = a[0]
    tier = os.environ.get('VERIF_TIER', 'quick')
    if '--tier' in a:
        tier = a[a.index('--tier') + 1]
    if tier not in ('quick', 'thorough'):
        tier = 'quick'
    seed = int(os.environ.get('VERIF_SEED', '1') or 1)
    replay = a[a.index('--replay') + 1] if '--replay' in a else None
    if prop not in PROPS:
        print('unknown property', prop)
        return 2
    try:
        fn = PROPS[prop].get('custom')
        if fn:
            return fn(prop, tier, seed, replay)
        return check(prop, tier, seed, replay)
    except ToolError as e:
        log('TOOL-ERROR: %s' % e)
        return 2
    except subprocess.TimeoutExpired as e:
        log('TOOL-ERROR: timeout %s' % e)
        return 2


if __name__ == '__main__':
    sys.exit(main())
