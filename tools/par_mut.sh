#!/bin/bash
# tools/par_mut.sh <k> <srcroot> <item>...  item = <ID>:<n>:<crate>:<itest>:<check,check,...>
# worker k confirms the change <srcroot>/<ID>/out/<n> in its own scratch worktree, then applies it to its own repo copy and
# runs the named checks from its own copy of /verif
k=$1; root=$2; shift 2
d=/tmp/pw$k
export MUTCONF_WT=$d/mutconf MUTCONF_TARGET=$d/mutconf_target
for it in "$@"; do
  IFS=: read id n crate itest checks <<< "$it"
  src=$root/$id/out/$n
  r=$(/verif/tools/confirm_mutant.sh $src $crate $itest 2>&1 | grep RESULT)
  echo "$r"
  case "$r" in *"demo_clean=0 build=0 crate_tests=0 itest=0 demo_mutant=101"*|*"demo_clean=0 build=0 crate_tests=0 itest=0 demo_mutant=124"*) ;; *) echo "NOTCONFIRMED $id/$n"; continue;; esac
  if ! git -C $d/repo apply $src/patch.diff 2>/dev/null; then echo "$id/$n patch-does-not-apply"; continue; fi
  line="MUT $id/$n"
  for p in ${checks//,/ }; do
    out=$(cd $d/verif && VERIF_FIRST=1 ./check $p --tier quick 2>&1); rc=$?
    line="$line $p=$rc($(echo "$out" | grep -c '^VIOLATION'))"
    [ $rc -eq 2 ] && echo "$out" | grep TOOL-ERROR | head -1 | cut -c1-300
  done
  git -C $d/repo checkout -q -- .
  echo "$line"
done
