#!/usr/bin/env python3
"""Regenerates MANIFEST.json from the table below (claimed checks) + properties.jsonl (not_applicable for the rest)."""
import json, os
ROOT = os.path.dirname(os.path.dirname(os.path.abspath(__file__)))
TECH = "TLA+ spec model-checked with TLC + trace validation of real executions against the spec"
C = {
 'C01': ("TLC exhaustively checks InFlightLeMax on spec/Bulkhead.tla (3 callers, all poll orders, drops, panics, timeouts); the spec is bound to the real bulkhead by replaying TLC-generated behaviours and seeded random schedules in the real middleware under a deterministic simulator and validating every recorded trace with TLC under the C01 enforcement profile.",
         "trusted: TLC, tokio paused clock/semaphore; schedules are poll-level interleavings on one thread; bounds: MC 3 callers, traces up to 14 callers", 'sim'),
 'C07': ("Same specification, C07 profile: admit-at-once, reject exactly at the deadline with the timeout error, work conservation before time advances, no inner call for rejected/cancelled callers, probe callers at the end of every run.",
         "trusted: TLC, tokio paused clock/semaphore; urgent executor (everything runnable is polled before time advances)", 'sim'),
 'C02': ("spec/RateLimiter.tla models the three window types as the code implements them; TLC checks at design level that the code's own windows/buckets/log satisfy the bound for all arrival patterns of 3-4 callers (boundaries, sleepers), and trace validation of real executions (virtual clock) searches for a cutting of time into windows >= P with <= L admissions (fixed, counter) or checks the L+1-span (log) over the observed inner-service calls only.",
         "trusted: TLC, tokio paused clock; whole-millisecond periods; f64 tie of the sliding counter allowed both ways exactly at equality", 'sim'),
 'C15': ("Same specification, C15 profile: every decision of the real limiter must equal the decision of the modelled try_acquire at that instant (admit at once iff spare capacity, later only with a real permit, otherwise rejected), decisions within timeout_duration, rejected calls start no inner call, admitted exactly one, idle-then-burst as a TLC invariant, no caller left undecided at the end of a run.",
         "trusted: TLC, tokio paused clock; urgent executor", 'sim'),
 'C03': ("Trace validation with an observer built only from what a real execution shows (the lock-free state view logged after every step, inner-service starts, results): from the first step that shows Open until wait_duration_in_open later, or until a step shows another state, every first poll of a new caller on any clone must return at once the open-circuit error (or the fallback's value) and start no inner call. Executions: TLC-generated behaviours of spec/CircuitBreaker.tla with concurrent callers (3-4 callers, force_open, failure-rate and slow-call opening) and seeded random schedules, under a virtual clock. TLC also model-checks the machine (3M+ states).",
         "trusted: TLC, tokio paused clock; opening instant = first step whose logged view is Open (time only moves in advance steps)", 'sim'),
 'C04': ("spec/CircuitBreaker.tla is the documented machine; TLC enumerates all sequential histories to depth 6-7 over a grid of 100-400 configurations (both window types, N, minimum calls below/equal/above N, thresholds 0..1, permitted trials, slow-call detection, custom classifier). TLC-generated histories and long seeded random histories (calls ok/e1/e2, fast/slow, waits around wait_duration, force_open, force_closed, reset) run against the real breaker; after every step state(), state_sync(), is_open(), metrics().state, inner-invoked and the result must equal the machine's.",
         "trusted: TLC, tokio paused clock (verif-hooks); thresholds restricted to quarters so f64 and integer arithmetic agree", 'sim'),
 'C09': ("Observer over real executions: within one observed half-open period the callers that started an inner call and were not cancelled number at most permitted_calls_in_half_open, and further new callers are rejected at once. Executions have 5-16 callers arriving while open/half-open in all poll orders, trial latencies and outcomes from the gated inner service. HalfBound is a TLC invariant of the machine.",
         "trusted: TLC, tokio paused clock; a cancelled trial call hands its slot back (see DESIGN.md 6), so cancelled trials are not counted", 'sim'),
 'C08': ("spec/BudgetImpl.tla models try_withdraw/deposit of both budgets one atomic operation at a time; TLC checks Conservation and BalanceLeMax for every interleaving of 3 threads over a grid of budgets (and finds the 4-step counterexample when deposit is load;store). The real budgets run under a controlled scheduler over instrumented atomics (verif-hooks): every interleaving of the atomic steps of 2-3 operations (sampled for 4), with call/return as scheduling points; TLC validates each recorded history for linearizability against the abstract spec/Budget.tla, conservation after every linearization, the ceiling after every atomic step and balance equality at quiescence.",
         "trusted: TLC; sequentially consistent interleavings (single-location RMW, see DESIGN.md 8); AIMD ceiling abstracted to any value within bounds", 'atomic-step'),
 'C13': ("Two halves. Limit bounds: spec/LimitImpl.tla (AIMD and Vegas load/compute/store, Vegas outcome nondeterministic) model-checked for 3 threads over all (min, initial, max, inc, factor); the real Aimd and Vegas run under the atomic-step scheduler and TLC validates min <= limit <= max after every single atomic operation. Service: spec/Adaptive.tla (exact in-flight count, readiness iff in_flight < limit, limit read from the implementation); TLC-generated behaviours and seeded random schedules with drops, panics and readiness probes run in the real AdaptiveService and every trace is validated.",
         "trusted: TLC, tokio paused clock; the limit dynamics are not specified beyond the bounds", 'atomic-step'),
 'C05': ("spec/Retry.tla is the retry loop (attempt counter, predicate, per-request max_attempts, backoff schedule, token-bucket budget shared by several requests); TLC explores all outcome sequences and interleavings of 2 requests over a grid of configurations (max_attempts 0..3, both predicates, fixed/exponential backoff, budgets 0..2). TLC-generated behaviours and seeded random schedules run in the real RetryLayer under the simulator; every poll's inner starts, the instant of every retry (never before the backoff is over), the returned payload (serial number of the last attempt) and budget.balance() after every step must equal the spec's.",
         "trusted: TLC, tokio paused clock; integer-millisecond backoffs with multiplier 2", 'sim'),
 'C14': ("spec/Backoff.tla is the schedule state machine delay(0) = min(initial, cap), delay(a+1) = min(delay(a)*m, cap) with saturation; TLC checks monotonicity, the cap and where the schedule ends for large attempts over a grid. The real ExponentialBackoff, ExponentialRandomBackoff, FixedInterval and every ReconnectPolicy constructor are called for attempts 0..200 (10^4 thorough) densely and 2^k, 2^k+-1 up to usize::MAX over the grid initial {0,1,100 ms,1 s,a day} x multiplier {1,3/2,2,10} x cap {absent, below initial, 5000, two years} x jitter {0,1/2,1} plus seeded random configurations; every returned delay is validated against the machine (a panic has no matching action); a default ReconnectLayer and a RetryLayer run hundreds (10^4 thorough) of attempts against a dead backend under virtual time.",
         "trusted: TLC; delays compared in whole units (ms or s) rounded to nearest, one unit of slack for the non-integer multiplier; jitter checked as an interval; all attempt numbers are sampled, not exhausted", 'sequential'),
 'C16': ("spec/Reconnect.tla is the reconnect loop of one request (and of several sharing the published state): calls <= max_attempts+1, retry only after a reconnectable error, the policy's delay before each retry (exactly, under the urgent executor; the index base of the policy is chosen once per run by TLC), result rules for MaxAttemptsExceeded/ConnectionFailed/ConnectionFailedNoRetry/ServiceError with the last inner error's payload, published connection state. TLC explores all outcome sequences for 1-2 requests over max_attempts {unlimited,0,1,2} x policies {none,fixed,exponential,custom} x both flags x predicate; generated behaviours and seeded random runs (also jittered policy) execute in the real ReconnectLayer and every trace is validated.",
         "trusted: TLC, tokio paused clock; ReconnectError is classified by its Display text because the type is not re-exported", 'sim'),
 'C06': ("spec/TimeLimiter.tla: deadline = first poll + timeout (fixed or per request); the outer call resolves with the inner result at the instant it is available if that is before the deadline, with the timeout error exactly at the deadline otherwise (either at a tie); cancel mode drops the inner call in that same step, detached mode lets it run on and its completion is observed later. TLC explores 2-3 concurrent calls over timeouts {0,2,4, per-request}, latencies below/at/above/never, both modes. Generated behaviours and seeded random runs (also builder-call orders, and runs with a late-polling executor in cancel mode) execute in the real TimeLimiterLayer; every trace is validated.",
         "trusted: TLC, tokio paused clock and spawn; detached-mode ties are resolved by tokio::select! at random (both allowed); inner panics are outside the property's quantifier and not injected", 'sim'),
 'C12': ("spec/Hedge.tla: attempts are spawned tasks whose results arrive in completion order; at most max_hedged_attempts starts, hedge k starts exactly delay(k) after the previous start (all at once in parallel mode), the first success in arrival order wins at the instant it arrives, all-attempts-failed only when max attempts have started and all have failed (TLC invariants AttemptsLeMax, FailOnlyWhenAllFailed over max 1..3, fixed/zero/per-attempt delays, all latency/outcome vectors of 1-2 concurrent hedged calls). Generated behaviours and seeded random runs execute in the real HedgeLayer (spawned tasks under the simulator) and every trace is validated.",
         "trusted: TLC, tokio paused clock, spawn and mpsc ordering; which error AllAttemptsFailed carries is not checked (the property does not say)", 'sim'),
}
def main():
    props = [json.loads(l) for l in open(os.path.join(ROOT, 'properties.jsonl'))]
    old = json.load(open(os.path.join(ROOT, 'MANIFEST.json')))
    checks = []
    for p in props:
        i = p['id']
        if i not in C:
            continue
        text, note, eng = C[i][:3]
        level = C[i][3] if len(C[i]) > 3 else 'model_checking'
        checks.append({"property_id": i, "quick_cmd": "./check %s --tier quick" % i, "thorough_cmd": "./check %s --tier thorough" % i,
                       "evidence_file": "evidence/%s.json" % i, "replay_cmd_template": "./check %s --replay {path}" % i, "engine": eng,
                       "level_claimed": {"category": level, "text": text, "design_ref": "DESIGN.md section 5, %s" % i},
                       "level_note": note, "technique": TECH})
    old['checks'] = checks
    na = {x['property_id']: x['reason'] for x in old.get('not_applicable', [])}
    old['not_applicable'] = [{'property_id': p['id'], 'reason': na.get(p['id'], 'check not built yet (work in progress; planned TLA+ specification in DESIGN.md section 5)')}
                             for p in props if p['id'] not in C]
    engs = {}
    for i in C:
        engs.setdefault(C[i][2], []).append(i)
    desc = {'sim': ('harness/src/sim.rs', 'deterministic single-thread simulator: hand-polled futures, gated inner service, tokio paused clock; traces validated by TLC against spec/*.tla'),
            'atomic-step': ('harness/src/atomic.rs', 'controlled scheduler over instrumented atomics: every interleaving of loads/stores/CAS of a few operations; histories validated by TLC for linearizability'),
            'sequential': ('harness/src/adapters', 'plain calls; TLC-generated decision tables replayed in the implementation')}
    old['engines'] = [{"name": e, "path": desc[e][0], "serves_properties": sorted(v), "kind_free_text": desc[e][1]} for e, v in engs.items()]
    json.dump(old, open(os.path.join(ROOT, 'MANIFEST.json'), 'w'), indent=1)
if __name__ == '__main__':
    main()
