#!/usr/bin/env python3
"""Regenerates MANIFEST.json from the table below (claimed checks) + properties.jsonl (not_applicable for the rest)."""
import json, os
ROOT = os.path.dirname(os.path.dirname(os.path.abspath(__file__)))
TECH = "TLA+ spec model-checked with TLC + trace validation of real executions against the spec"
C = {
 'C01': ("TLC exhaustively checks InFlightLeMax on spec/Bulkhead.tla (3 callers, all poll orders, drops, panics, timeouts); the spec is bound to the real bulkhead by replaying TLC-generated behaviours and seeded random schedules in the real middleware under a deterministic simulator and validating every recorded trace with TLC under the C01 enforcement profile.",
         "trusted: TLC, tokio paused clock/semaphore; schedules are poll-level interleavings on one thread; bounds: MC 3 callers, traces up to 14 callers", 'sim'),
 'C07': ("Same specification, C07 profile: admit-at-once, reject exactly at the deadline with the timeout error, work conservation before time advances, no inner call for rejected/cancelled callers, probe callers at the end of every run.",
         "trusted: TLC, tokio paused clock/semaphore; urgent executor (everything runnable is polled before time advances)", 'sim'),
 'C02': ("spec/RateLimiter.tla models the three window types as the code implements them; TLC checks at design level that the code's own windows/buckets/log satisfy the bound for all arrival patterns of 3-4 callers (boundaries, sleepers), and trace validation of real executions (virtual clock) searches for a cutting of time into windows >= P with <= L admissions (fixed, counter) or checks the L+1-span (log) over the observed inner-service calls only.",
         "trusted: TLC, tokio paused clock; whole-millisecond periods; f64 tie of the sliding counter allowed both ways exactly at equality", 'sim'),
 'C15': ("Same specification, C15 profile: every decision of the real limiter must equal the decision of the modelled try_acquire at that instant (admit at once iff spare capacity, later only with a real permit, otherwise rejected), decisions within timeout_duration, rejected calls start no inner call, admitted exactly one, idle-then-burst as a TLC invariant, no caller left undecided at the end of a run.",
         "trusted: TLC, tokio paused clock; urgent executor", 'sim'),
}
def main():
    props = [json.loads(l) for l in open(os.path.join(ROOT, 'properties.jsonl'))]
    old = json.load(open(os.path.join(ROOT, 'MANIFEST.json')))
    checks = []
    for p in props:
        i = p['id']
        if i not in C:
            continue
        text, note, eng = C[i][:3]
        level = C[i][3] if len(C[i]) > 3 else 'model_checking'
        checks.append({"property_id": i, "quick_cmd": "./check %s --tier quick" % i, "thorough_cmd": "./check %s --tier thorough" % i,
                       "evidence_file": "evidence/%s.json" % i, "replay_cmd_template": "./check %s --replay {path}" % i, "engine": eng,
                       "level_claimed": {"category": level, "text": text, "design_ref": "DESIGN.md section 5, %s" % i},
                       "level_note": note, "technique": TECH})
    old['checks'] = checks
    na = {x['property_id']: x['reason'] for x in old.get('not_applicable', [])}
    old['not_applicable'] = [{'property_id': p['id'], 'reason': na.get(p['id'], 'check not built yet (work in progress; planned TLA+ specification in DESIGN.md section 5)')}
                             for p in props if p['id'] not in C]
    engs = {}
    for i in C:
        engs.setdefault(C[i][2], []).append(i)
    desc = {'sim': ('harness/src/sim.rs', 'deterministic single-thread simulator: hand-polled futures, gated inner service, tokio paused clock; traces validated by TLC against spec/*.tla'),
            'atomic-step': ('harness/src/atomic.rs', 'controlled scheduler over instrumented atomics: every interleaving of loads/stores/CAS of a few operations; histories validated by TLC for linearizability'),
            'sequential': ('harness/src/adapters', 'plain calls; TLC-generated decision tables replayed in the implementation')}
    old['engines'] = [{"name": e, "path": desc[e][0], "serves_properties": sorted(v), "kind_free_text": desc[e][1]} for e, v in engs.items()]
    json.dump(old, open(os.path.join(ROOT, 'MANIFEST.json'), 'w'), indent=1)
if __name__ == '__main__':
    main()
