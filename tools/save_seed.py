#!/usr/bin/env python3
"""save_seed.py <name> <srcdir> <property> <patch or ''> <caught_by csv> <needs text>"""
import sys, os, json, shutil
name, src, prop, patch, caught, needs = sys.argv[1:7]
d = os.path.join('/verif/seeded', name)
os.makedirs(d, exist_ok=True)
shutil.copy(patch or os.path.join(src, 'patch.diff'), os.path.join(d, 'patch.diff'))
if patch:
    shutil.copy(os.path.join(src, 'patch.diff'), os.path.join(d, 'patch.original.diff'))
shutil.copy(os.path.join(src, 'demo.rs'), os.path.join(d, 'demo.rs'))
if os.path.exists(os.path.join(src, 'notes.md')):
    shutil.copy(os.path.join(src, 'notes.md'), os.path.join(d, 'notes.md'))
meta = {'property': prop, 'needs': needs, 'author': 'independent sub-agent given only the property text and a scratch worktree',
        'confirmed': 'tools/confirm_mutant.sh in a scratch worktree: demo passes on the clean tree; with the change the workspace builds, the crate tests and the component integration tests pass, the demo fails',
        'ran': ['tools/mutest.sh %s/patch.diff %s' % (d, ' '.join(caught.split(',')))],
        'caught_by': [c for c in caught.split(',') if c], 'patch_applies_to': 'repo HEAD at time of saving (patch.original.diff = as written against the pinned+hooks tree, if rebased)'}
json.dump(meta, open(os.path.join(d, 'meta.json'), 'w'), indent=1)
print('saved', d)
