#!/usr/bin/env python3
"""Rewrites the seed table of DESIGN.md (between the table header and the next blank line) from seeded/*/meta.json."""
import json, os, re
root = '/verif'
rows = []
for n in sorted(os.listdir(root + '/seeded')):
    m = os.path.join(root, 'seeded', n, 'meta.json')
    if not os.path.exists(m):
        continue
    j = json.load(open(m))
    needs = j.get('needs', '').replace('|', '/').replace('\n', ' ')
    needs = re.sub(r'^wave 3 \(away from the central code path\): ', '', needs)
    needs = re.sub(r'\*\*|`', '', needs)
    if len(needs) > 230:
        needs = needs[:227] + '...'
    rows.append('| %s | %s | %s |' % (n, needs, ', '.join(j.get('caught_by', []))))
s = open(root + '/DESIGN.md').read()
head = '| seed | needs | caught by |\n|------|-------|-----------|\n'
i = s.index(head) + len(head)
j = s.index('\n\n', i)
s = s[:i] + '\n'.join(rows) + s[j:]
open(root + '/DESIGN.md', 'w').write(s)
print(len(rows), 'rows')
