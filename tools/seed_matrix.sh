#!/bin/bash
# tools/seed_matrix.sh [tier]: apply every seeded change to /repo in turn, run the checks named in its
# meta.json (caught_by, first = the property it was written against), undo it. Prints one line per seed.
# Do not run other checks at the same time: /repo's working tree is modified while this runs.
cd /verif
for d in seeded/*/; do
  n=$(basename $d)
  props=$(python3 -c "import json;m=json.load(open('$d/meta.json'));print(' '.join(dict.fromkeys([m['property']]+m.get('caught_by',[]))))")
  if ! git -C /repo apply $PWD/$d/patch.diff 2>/dev/null; then echo "SEED $n patch-does-not-apply"; continue; fi
  line="SEED $n"
  for p in $props; do
    out=$(./check $p --tier ${1:-quick} 2>&1); rc=$?
    line="$line $p=$rc($(echo "$out" | grep -c '^VIOLATION'))"
  done
  git -C /repo checkout -- .
  echo "$line"
done
rm -f replays/*.ndjson
