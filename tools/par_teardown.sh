#!/bin/bash
for d in /tmp/pw*; do [ -d $d/repo ] && git -C /repo worktree remove --force $d/repo; rm -rf $d; done
git -C /repo worktree prune
